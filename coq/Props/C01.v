(* C01 — posterior samples and evidence are statistically correct.
   PARTIAL by nature: convergence of the external MCMC kernels and of flow training cannot be a theorem about an
   executable model; the ESTIMATOR IDENTITIES that make the outputs correct can (finite spaces; no measure theory
   library is installed).  The statistical behaviour is the business of the search (replicated runs on analytic targets). *)
From Coq Require Import Reals List Bool.
From AV Require Import Lib.Vec Proofs.C01 Proofs.C05 Lib.XR Gen.Calls.
Import ListNotations.
Open Scope R_scope.

(* the importance-sampling evidence estimate (mean weight of n i.i.d. proposal draws) has expectation sum_x L(x) pi(x),
   for any proposal that is positive on the support and any n >= 1 *)
Theorem C01_evidence_unbiased_partial : forall {A} (q : list (A * R)) (target : A -> R) (n : nat),
  vsum (map snd q) = 1 -> Forall (fun xp => snd xp <> 0) q -> (0 < n)%nat ->
  forall (w : A -> R), (forall xp, In xp q -> w (fst xp) = target (fst xp) / snd xp) ->
  expect_n q n (fun l => vsum (map w l) / INR n) = vsum (map (fun xp => target (fst xp)) q).
Proof. exact @evidence_unbiased. Qed.

(* the tempering path telescopes: for ANY temperature ladder the log-ratios ln(Z_t / Z_{t-1}) that the SMC loop
   accumulates (C08) sum to ln Z_T - ln Z_0 *)
Theorem C01_tempered_path_telescopes_partial : forall (z0 : R) (zs : list R),
  fold_right Rplus 0 (map (fun ab => ln (snd ab) - ln (fst ab)) (combine (z0 :: zs) zs)) = ln (last zs z0) - ln z0.
Proof. exact telescope. Qed.

(* preconditioning changes coordinates, not the target: the density handed to the kernel is the tempered target
   plus the log-Jacobian of the inverse map, whatever the transform (C05) *)
Theorem C01_precond_same_target_partial : forall {X Z} (L Pi Q : X -> XR) (Tinv_pt : Z -> X) (Tinv_lj : Z -> XR) b zi q l p j,
  Q (Tinv_pt zi) = Fin q -> L (Tinv_pt zi) = Fin l -> Pi (Tinv_pt zi) = Fin p -> Tinv_lj zi = Fin j ->
  smc_row L Pi Q Tinv_pt Tinv_lj (Fin b) zi = Fin ((1 - b) * q + b * (l + p) + j).
Proof. intros. now apply smc_row_finite. Qed.

(* the SMC incremental weight (Gen/Kernels.v log_weights: (b1-b0)(log L + log pi - log q)) has, under the tempered
   distribution at b0, mean Z_{b1}/Z_{b0}: the quantity log_evidence_ratio estimates (C08) is the right one *)
Theorem C01_incremental_weight_mean_partial : forall {A} (pts : list A) (lq lt : A -> R) (b0 b1 : R), pts <> [] ->
  expect (map (fun x => (x, exp ((1 - b0) * lq x + b0 * lt x) / vsum (map (fun y => exp ((1 - b0) * lq y + b0 * lt y)) pts))) pts)
         (fun x => exp ((b1 - b0) * (lt x - lq x)))
  = vsum (map (fun y => exp ((1 - b1) * lq y + b1 * lt y)) pts) / vsum (map (fun y => exp ((1 - b0) * lq y + b0 * lt y)) pts).
Proof. intros A pts lq lt b0 b1 H. exact (incremental_weight_expectation pts lq lt H b0 b1). Qed.

(* ... so for ANY ladder from 0 to 1 the exact log mean incremental weights add up to the log-evidence sum_x L(x)pi(x),
   provided the proposal is normalised *)
Theorem C01_ladder_targets_evidence_partial : forall {A} (pts : list A) (lq lt : A -> R) (bs : list R), pts <> [] ->
  vsum (map (fun x => exp (lq x)) pts) = 1 -> last bs 0 = 1 ->
  fold_right Rplus 0 (map (fun ab => ln (expect (pb pts lq lt (fst ab)) (fun x => exp ((snd ab - fst ab) * (lt x - lq x)))))
                          (combine (0 :: bs) bs))
  = ln (vsum (map (fun x => exp (lt x)) pts)).
Proof. intros A pts lq lt bs H. exact (ladder_targets_evidence pts lq lt H bs). Qed.

(* the importance sampler (generated from ImportanceSampler.sample, Gen/Calls.v) weighs EVERY draw it was given: the returned
   set is the drawn set and its log-weights are log L + log pi - log q of each draw, zero-weight draws included - the mean
   weight of C01_evidence_unbiased_partial is therefore taken over all n draws, not over a filtered subset *)
Theorem C01_importance_weighs_every_draw_partial : forall {X} (L Pi : X -> XR) (x : list X) (lq : list XR) n0,
  Gen.Calls.importance_sample_x x lq n0 = x
  /\ Gen.Calls.importance_sample_log_w L Pi x lq n0 = vmap2 xsub (vmap2 xadd (map L x) (map Pi x)) lq.
Proof. intros. split; reflexivity. Qed.

(* the initial population of the SMC samplers is drawn from the proposal RESTRICTED to the prior support (out-of-support draws are
   rejected and redrawn) but weighted with the unrestricted proposal density: the mean weight then estimates Z / q(S), not Z —
   finding F55 (known_findings.json): exact value, and a machine-checked instance where it differs from the evidence *)
Theorem C01_truncated_initial_population_partial : forall {A} (q : list (A * R)) (target w : A -> R) (inS : A -> bool),
  let qS := filter (fun xp => inS (fst xp)) q in
  let P := vsum (map snd qS) in
  Forall (fun xp => snd xp <> 0) q -> P <> 0 ->
  (forall xp, In xp q -> w (fst xp) = target (fst xp) / snd xp) ->
  expect (map (fun xp => (fst xp, snd xp / P)) qS) w = vsum (map (fun xp => target (fst xp)) qS) / P.
Proof. exact @truncated_population_weight_mean. Qed.

Theorem C01_smc_evidence_unbiased_refuted :
  exists (q : list (nat * R)) (target w : nat -> R) (inS : nat -> bool),
    vsum (map snd q) = 1 /\ (forall xp, In xp q -> w (fst xp) = target (fst xp) / snd xp)
    /\ (forall xp, In xp q -> inS (fst xp) = false -> target (fst xp) = 0)
    /\ let qS := filter (fun xp => inS (fst xp)) q in
       expect (map (fun xp => (fst xp, snd xp / vsum (map snd qS))) qS) w <> vsum (map (fun xp => target (fst xp)) q).
Proof. exact truncated_population_biased. Qed.

Print Assumptions C01_evidence_unbiased_partial.
Print Assumptions C01_importance_weighs_every_draw_partial.
Print Assumptions C01_incremental_weight_mean_partial.
Print Assumptions C01_ladder_targets_evidence_partial.
Print Assumptions C01_tempered_path_telescopes_partial.
Print Assumptions C01_precond_same_target_partial.
Print Assumptions C01_truncated_initial_population_partial.
Print Assumptions C01_smc_evidence_unbiased_refuted.
