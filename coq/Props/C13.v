(* C13 — what is saved to HDF5 reloads unchanged: the dictionary codec (utils.py encode_for_hdf5 /
   recursively_save_to_h5_file / load_from_h5_file / decode_from_hdf5) as modelled in Model/Codec.v and compared
   with real HDF5 files leaf by leaf on every run.  Samples, histories, transforms, flows and the Aspire
   configuration are all stored through this codec; their object-level round trips are decided by the
   differential part of the check. *)
From Coq Require Import List Bool ZArith String Permutation.
From AV Require Import Model.Codec Proofs.C13.
Import ListNotations.

(* saving then loading a well-formed configuration dictionary gives back its canonical form — structurally *)
Theorem C13_roundtrip : forall kvs, wf (VDict kvs) = true -> VDict (load (save kvs)) = canon (VDict kvs).
Proof. exact load_save. Qed.

(* ... hence the same value under every path of keys (absent stays absent) *)
Theorem C13_roundtrip_lookup : forall kvs, wf (VDict kvs) = true ->
  forall p, lookup p (VDict (load (save kvs))) = lookup p (canon (VDict kvs)).
Proof. exact roundtrip_lookup. Qed.

(* every leaf: decoding what was encoded is the canonical leaf (None, empty dict, strings, lists, arrays, scalars) *)
Theorem C13_decode_encode : forall v s, wf v = true -> encode v = Some s -> decode s = canon v.
Proof. exact decode_encode. Qed.

(* h5py hands the datasets back sorted by name, not in insertion order: any order gives the same observations *)
Theorem C13_order_independent : forall kvs l', wf (VDict kvs) = true -> Permutation l' (save kvs) ->
  forall p, obs p (VDict (load l')) = obs p (canon (VDict kvs)).
Proof. exact load_permutation_canon. Qed.

(* dataset names: keys joined with "." split back into the same keys *)
Theorem C13_dataset_names : forall p, p <> [] -> forallb key_ok p = true -> split (join p) = p.
Proof. exact join_split. Qed.

(* the same through the dataset names the file really has (paths joined with ".", split again on loading) *)
Theorem C13_roundtrip_through_names : forall kvs, wf (VDict kvs) = true ->
  VDict (load_named (save_named kvs)) = canon (VDict kvs).
Proof. exact load_named_save_named. Qed.

(* the well-formedness guard cannot be dropped: a key containing "." (a parameter named "x.y") is saved and reloads as a
   nested dictionary — finding F36, recorded in known_findings.json *)
Theorem C13_roundtrip_dotted_key_refuted :
  exists kvs, nodup_keys (map fst kvs) = true /\ forallb (fun k => negb (String.eqb k "")) (map fst kvs) = true
              /\ VDict (load_named (save_named kvs)) <> canon (VDict kvs).
Proof. exact named_roundtrip_dotted_key_refuted. Qed.

Theorem C13_canon_idempotent : forall v, canon (canon v) = canon v.
Proof. exact canon_idem_all. Qed.

(* non-vacuity: wf is satisfied by a configuration with None, a nested empty dict, nested dicts, string / number lists, arrays *)
Example C13_wf_satisfiable : wf (VDict example_cfg) = true.
Proof. exact example_wf. Qed.

Print Assumptions C13_roundtrip.
Print Assumptions C13_roundtrip_lookup.
Print Assumptions C13_decode_encode.
Print Assumptions C13_order_independent.
Print Assumptions C13_dataset_names.
Print Assumptions C13_canon_idempotent.
Print Assumptions C13_roundtrip_through_names.
Print Assumptions C13_roundtrip_dotted_key_refuted.
