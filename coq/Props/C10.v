(* C10 — cached per-particle log-densities always belong to the particle's coordinates. *)
From Coq Require Import Reals List Bool Arith.
From AV Require Import Lib.Num Lib.Vec Lib.XR Lib.Soa Gen.Calls Gen.Rows Model.SMC Model.InitDraw Proofs.SMCGeneric Proofs.C10.
Import ListNotations.

(* the initial population: exactly n rows, every prior finite and equal to Pi x, likelihood L x, and the
   proposal density is the one that was drawn together with x *)
Theorem C10_initial : forall (X V : Type) (L Pi : X -> V) (isfinite : V -> bool) batches n rows,
  draw_initial X V L Pi isfinite batches n = Some rows ->
  length rows = n
  /\ Forall (fun r => match r with (x, q, p, l) =>
               p = Pi x /\ isfinite p = true /\ l = L x /\ In (x, q) (concat batches) end) rows.
Proof. exact draw_initial_spec. Qed.

(* the mutation step (both kernels) returns coordinates with THEIR OWN proposal density, prior and likelihood *)
Theorem C10_mutate_coherent : forall {X Z} (L Pi Q : X -> XR) (Tinv_pt : Z -> X) znew beta n0,
  coherent L Pi Q (minipcn_mutate_x Tinv_pt znew beta n0) (minipcn_mutate_log_likelihood L Tinv_pt znew beta n0)
           (minipcn_mutate_log_prior Pi Tinv_pt znew beta n0) (minipcn_mutate_log_q Q Tinv_pt znew beta n0)
  /\ coherent L Pi Q (emcee_mutate_x Tinv_pt znew beta n0) (emcee_mutate_log_likelihood L Tinv_pt znew beta n0)
              (emcee_mutate_log_prior Pi Tinv_pt znew beta n0) (emcee_mutate_log_q Q Tinv_pt znew beta n0).
Proof. intros. split; [apply minipcn_mutate_coherent| apply emcee_mutate_coherent]. Qed.

Theorem C10_importance_coherent : forall {X} (L Pi : X -> XR) (x : list X) (lq : list XR) n0,
  importance_sample_x x lq n0 = x
  /\ importance_sample_log_prior Pi x lq n0 = map Pi x
  /\ importance_sample_log_likelihood L x lq n0 = map L x
  /\ importance_sample_log_q x lq n0 = lq.
Proof. intros. apply importance_sample_coherent. Qed.

(* resampling and every kind of selection keep each row's densities with its coordinates *)
Theorem C10_selection_preserves : forall {X} (L Pi Q : X -> R) (x : list X) ll lp lq b0 b idx dX,
  Forall (fun i => (i < length x)%nat) idx -> coherent L Pi Q x ll lp lq ->
  coherent L Pi Q (resample_rows_x x ll lp lq b0 b idx dX) (resample_rows_log_likelihood x ll lp lq b0 b idx dX)
           (resample_rows_log_prior x ll lp lq b0 b idx dX) (resample_rows_log_q x ll lp lq b0 b idx dX)
  /\ coherent L Pi Q (base_getitem_x x ll lp lq idx dX) (base_getitem_log_likelihood x ll lp lq idx dX)
              (base_getitem_log_prior x ll lp lq idx dX) (base_getitem_log_q x ll lp lq idx dX).
Proof. intros. split; [now apply resample_coherent| now apply getitem_coherent]. Qed.

(* by induction over the whole run: if resampling and mutation preserve an invariant of populations
   (above: coherence), then the final samples, EVERY stored population and EVERY checkpoint payload satisfy it *)
Theorem C10_everywhere : forall (N : Num) (P G : Type) effq essq ratio ratio_var cte pbeta psize resample_o mutate_o
    (Good : P -> Prop),
  (forall g p b n, Good p -> Good (fst (resample_o g p b n))) ->
  (forall g p b f, Good p -> Good (fst (mutate_o g p b f))) ->
  forall fuel o p0 g0 out evs, Good p0 ->
  sample N P G effq essq ratio ratio_var cte pbeta psize resample_o mutate_o fuel o p0 g0 = Ok (out, evs) ->
  Good (o_pop _ _ _ out) /\ Forall Good (h_pops _ _ (o_hist _ _ _ out))
  /\ Forall (fun c => Good (c_pop _ _ _ c) /\ Forall Good (h_pops _ _ (c_hist _ _ _ c))) evs.
Proof.
  intros N P G effq essq ratio ratio_var cte pbeta psize resample_o mutate_o Good Hr Hm fuel o p0 g0 out evs H0 H.
  exact (sample_good N P G effq essq ratio ratio_var cte pbeta psize resample_o mutate_o Good Hr Hm fuel o p0 g0 out evs H0 H).
Qed.

Print Assumptions C10_initial.
Print Assumptions C10_mutate_coherent.
Print Assumptions C10_importance_coherent.
Print Assumptions C10_selection_preserves.
Print Assumptions C10_everywhere.
