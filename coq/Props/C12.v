(* C12 — checkpoints are written exactly at the iterations dictated by the cadence plus once at the
   end, each payload is the current loop state; the pickled blob stored in the file is exactly the
   new payload whatever the previous size. *)
From Coq Require Import List Bool Arith ZArith Init.Byte.
From AV Require Import Lib.Num Model.SMC Model.Blob Proofs.SMCGeneric Proofs.C12.
Import ListNotations.

Theorem C12_cadence : forall (N : Num) (P G : Type) effq essq ratio ratio_var cte pbeta psize resample_o mutate_o
    fuel o p0 g0 out evs,
  sample N P G effq essq ratio ratio_var cte pbeta psize resample_o mutate_o fuel o p0 g0 = Ok (out, evs) ->
  map (fun c => (c_iter _ _ _ c, c_evidence _ _ _ c)) evs
  = map (fun i => (i, None)) (cadence N o 0 (o_iter _ _ _ out))
    ++ (if has_callback _ o
        then [(o_iter _ _ _ out, Some (o_log_evidence _ _ _ out, o_log_evidence_error _ _ _ out))] else []).
Proof.
  intros. destruct (sample_faithful _ _ _ _ _ _ _ _ _ _ _ _ _ _ _ _ _ _ H)
    as (pops & bs & _ & _ & Hi & _ & _ & _ & _ & _ & _ & _ & _ & _ & Hc).
  rewrite Hi. exact Hc.
Qed.

(* a run resumed from ANY payload c under ANY option record o (in particular another cadence than the
   one c was written under) that still has iterations to do: the callback is invoked exactly at the
   run's iteration numbers i > c_iter c with i mod every = 0 — the rule is about the run's iterations,
   not about the iterations of the call that executes them — plus the forced final payload *)
Theorem C12_cadence_of_a_resumed_run : forall (N : Num) (P G : Type) effq essq ratio ratio_var cte pbeta psize resample_o mutate_o
    fuel (o : opts N) (c : ckpt N P G) out evs,
  sample_resumed N P G effq essq ratio ratio_var cte pbeta psize resample_o mutate_o fuel o c = Ok (out, evs) ->
  resumed_skips_loop N P G o (restore N P G o c) = false ->
  c_iter _ _ _ c < o_iter _ _ _ out
  /\ map (fun c => (c_iter _ _ _ c, c_evidence _ _ _ c)) evs
     = map (fun i => (i, None)) (cadence N o (c_iter _ _ _ c) (o_iter _ _ _ out - c_iter _ _ _ c))
       ++ (if has_callback _ o
           then [(o_iter _ _ _ out, Some (o_log_evidence _ _ _ out, o_log_evidence_error _ _ _ out))] else []).
Proof. exact resumed_cadence. Qed.
(* the cadence itself: iteration i is checkpointed iff a callback exists, every > 0 and i mod every = 0 *)
Theorem C12_cadence_rule : forall (N : Num) (o : opts N) i,
  should_checkpoint N o false i
  = has_callback _ o && (Z.ltb 0 (ckpt_every _ o) && Z.eqb (Z.modulo (Z.of_nat i) (ckpt_every _ o)) 0).
Proof. intros. reflexivity. Qed.

(* every payload handed to the callback during the loop is the loop state at that iteration *)
Theorem C12_payload_is_current : forall (N : Num) (P G : Type) effq essq ratio ratio_var cte pbeta resample_o mutate_o
    o st st' brk evs c,
  step N P G effq essq ratio ratio_var cte pbeta resample_o mutate_o o st = Ok (st', brk, evs) ->
  In c evs -> c = mk_ckpt N P G st' None.
Proof. exact payload_current. Qed.

(* the stored dataset equals the new blob byte for byte, for any old and new size *)
Theorem C12_blob_exact : forall (old : option (list byte)) (new : list byte),
  write_blob old new = new.
Proof. exact write_blob_exact. Qed.

(* interruption after any number k of checkpoint writes: the dataset holds, byte for byte, the
   last payload written before the interruption (the older content when nothing was written yet),
   and it is always one whole payload, never a mixture *)
Theorem C12_file_after_interruption : forall (old : option (list byte)) (blobs : list (list byte)) k,
  file_after old (firstn k blobs)
  = match firstn k blobs with [] => old | _ => Some (last (firstn k blobs) []) end.
Proof. exact file_after_interruption. Qed.
Theorem C12_file_is_one_whole_payload : forall (old : option (list byte)) (blobs : list (list byte)) k b,
  file_after old (firstn k blobs) = Some b -> old = Some b \/ In b blobs.
Proof. exact file_after_is_a_payload. Qed.
Example C12_interruption_nonvacuous :
  file_after (Some [x01; x02; x03]%byte) (firstn 2 [[x0a]; [x0b; x0c]; [x0d]]%byte) = Some [x0b; x0c]%byte.
Proof. reflexivity. Qed.
Print Assumptions C12_cadence.
Print Assumptions C12_cadence_rule.
Print Assumptions C12_payload_is_current.
Print Assumptions C12_blob_exact.
Print Assumptions C12_file_after_interruption.
Print Assumptions C12_file_is_one_whole_payload.
Print Assumptions C12_cadence_of_a_resumed_run.
