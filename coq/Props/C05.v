(* C05 — kernels are handed the correct (tempered) target in the preconditioned space.
   About SMCSampler.log_prob / MCMCSampler.log_prob as regenerated in Gen/Calls.v, for EVERY user
   likelihood L, prior Pi, proposal density Q and EVERY preconditioning inverse (point map Tinv_pt
   and reported log|det dx/dz| Tinv_lj); that the reported log-Jacobian is the true one is C04. *)
From Coq Require Import Reals List Bool.
From AV Require Import Lib.Vec Lib.XR Gen.Calls Proofs.C05.
Import ListNotations.
Open Scope R_scope.

Theorem C05_smc_target : forall {X Z} (L Pi Q : X -> XR) (Tinv_pt : Z -> X) (Tinv_lj : Z -> XR) z b n0,
  smc_log_prob_value L Pi Q Tinv_pt Tinv_lj z (Fin b) n0 = map (smc_row L Pi Q Tinv_pt Tinv_lj (Fin b)) z
  /\ forall zi q l p j,
       Q (Tinv_pt zi) = Fin q -> L (Tinv_pt zi) = Fin l -> Pi (Tinv_pt zi) = Fin p -> Tinv_lj zi = Fin j ->
       smc_row L Pi Q Tinv_pt Tinv_lj (Fin b) zi = Fin ((1 - b) * q + b * (l + p) + j).
Proof. intros. split; [apply smc_log_prob_rows| intros; now apply smc_row_finite]. Qed.

(* the BlackJAX adapter hands its kernel the same per-row value *)
Theorem C05_blackjax_target : forall {X Z} (L Pi Q : X -> XR) (Tinv_pt : Z -> X) (Tinv_lj : Z -> XR) z beta n0,
  blackjax_log_prob_value L Pi Q Tinv_pt Tinv_lj z beta n0 = map (smc_row L Pi Q Tinv_pt Tinv_lj beta) z.
Proof. intros. apply blackjax_log_prob_rows. Qed.

Theorem C05_mcmc_target : forall {X Z} (L Pi : X -> XR) (Tinv_pt : Z -> X) (Tinv_lj : Z -> XR) z n0,
  mcmc_log_prob_value L Pi Tinv_pt Tinv_lj z n0 = map (mcmc_row L Pi Tinv_pt Tinv_lj) z
  /\ forall zi l p j,
       L (Tinv_pt zi) = Fin l -> Pi (Tinv_pt zi) = Fin p -> Tinv_lj zi = Fin j ->
       mcmc_row L Pi Tinv_pt Tinv_lj zi = Fin (l + p + j).
Proof. intros. split; [apply mcmc_log_prob_rows| intros; now apply mcmc_row_finite]. Qed.

Theorem C05_zero_prior : forall {X Z} (L Pi Q : X -> XR) (Tinv_pt : Z -> X) (Tinv_lj : Z -> XR) b zi q j,
  0 < b <= 1 -> Pi (Tinv_pt zi) = NInf -> Q (Tinv_pt zi) = Fin q -> Tinv_lj zi = Fin j ->
  (L (Tinv_pt zi) <> PInf -> smc_row L Pi Q Tinv_pt Tinv_lj (Fin b) zi = NInf)
  /\ (((exists l, L (Tinv_pt zi) = Fin l) \/ L (Tinv_pt zi) = NInf) -> mcmc_row L Pi Tinv_pt Tinv_lj zi = NInf).
Proof.
  intros X Z L Pi Q Tinv_pt Tinv_lj b zi q j Hb Hp Hq Hj. split.
  - intros Hne. eapply smc_row_zero_prior; eauto.
  - intros Hc. eapply mcmc_row_zero_prior; eauto.
Qed.

Theorem C05_nan_to_neginf : forall {X Z} (L Pi Q : X -> XR) (Tinv_pt : Z -> X) (Tinv_lj : Z -> XR) z beta n0,
  Forall (fun v => xisnan v = false) (smc_log_prob_value L Pi Q Tinv_pt Tinv_lj z beta n0).
Proof. intros. apply smc_never_nan. Qed.

Print Assumptions C05_smc_target.
Print Assumptions C05_mcmc_target.
Print Assumptions C05_blackjax_target.
Print Assumptions C05_zero_prior.
Print Assumptions C05_nan_to_neginf.
