(* C16 — slicing, concatenating, pickling and dict-converting samples keep rows aligned. *)
From Coq Require Import Reals List Bool Arith.
From AV Require Import Lib.Vec Lib.Soa Gen.Rows Model.SamplesAlg Proofs.C16 Proofs.C02 Proofs.C16ess.
Import ListNotations.
Local Open Scope nat_scope.

(* the generated __getitem__ of all three classes returns the same selection of EVERY per-sample field
   (weights included), and the evidence attached to the set is carried, not recomputed *)
Theorem C16_select_uniform : forall {X} (x : list X) ll lp lq lw w b le lee idx dX,
  (base_getitem_x x ll lp lq idx dX = select idx x dX
   /\ base_getitem_log_likelihood x ll lp lq idx dX = select idx ll 0%R
   /\ base_getitem_log_prior x ll lp lq idx dX = select idx lp 0%R
   /\ base_getitem_log_q x ll lp lq idx dX = select idx lq 0%R)
  /\ (smc_getitem_x x ll lp lq b le lee idx dX = select idx x dX
      /\ smc_getitem_log_likelihood x ll lp lq b le lee idx dX = select idx ll 0%R
      /\ smc_getitem_log_prior x ll lp lq b le lee idx dX = select idx lp 0%R
      /\ smc_getitem_log_q x ll lp lq b le lee idx dX = select idx lq 0%R
      /\ smc_getitem_beta x ll lp lq b le lee idx dX = b
      /\ smc_getitem_log_evidence x ll lp lq b le lee idx dX = le
      /\ smc_getitem_log_evidence_error x ll lp lq b le lee idx dX = lee)
  /\ (samples_getitem_x x ll lp lq lw w le lee idx dX = select idx x dX
      /\ samples_getitem_log_likelihood x ll lp lq lw w le lee idx dX = select idx ll 0%R
      /\ samples_getitem_log_prior x ll lp lq lw w le lee idx dX = select idx lp 0%R
      /\ samples_getitem_log_q x ll lp lq lw w le lee idx dX = select idx lq 0%R
      /\ samples_getitem_log_w x ll lp lq lw w le lee idx dX = select idx lw 0%R
      /\ samples_getitem_weights x ll lp lq lw w le lee idx dX = select idx w 0%R
      /\ samples_getitem_log_evidence x ll lp lq lw w le lee idx dX = le
      /\ samples_getitem_log_evidence_error x ll lp lq lw w le lee idx dX = lee).
Proof.
  intros. split; [apply gen_getitem_is_select|]. split; [apply gen_smc_getitem| apply gen_samples_getitem].
Qed.

(* ... also when the set has NO weights (a density is absent) but carries an evidence — the shape of every SMC result
   (SMCSamples.to_standard_samples drops log_q and attaches the run's evidence) *)
Theorem C16_select_unweighted_carries_evidence : forall {X} (x : list X) ll lp le lee idx dX,
  samples_getitem_unweighted_x x ll lp le lee idx dX = select idx x dX
  /\ samples_getitem_unweighted_log_likelihood x ll lp le lee idx dX = select idx ll 0%R
  /\ samples_getitem_unweighted_log_prior x ll lp le lee idx dX = select idx lp 0%R
  /\ samples_getitem_unweighted_log_evidence x ll lp le lee idx dX = le
  /\ samples_getitem_unweighted_log_evidence_error x ll lp le lee idx dX = lee.
Proof. intros. apply gen_samples_getitem_unweighted. Qed.

(* ... and the effective sample size a selection reports is that of ITS OWN rows: (sum w)^2 / sum w^2 over the selected
   weights, between 1 and the number of selected rows (the selection is a weighted sample set in the sense of C02) *)
Theorem C16_select_ess_of_selection : forall {X} (x : list X) ll lp lq lw w le lee idx dX,
  select idx lw 0%R <> [] ->
  samples_getitem_ess x ll lp lq lw w le lee idx dX = ess_of (map exp (select idx lw 0%R))
  /\ (1 <= samples_getitem_ess x ll lp lq lw w le lee idx dX <= INR (length (select idx lw 0%R)))%R.
Proof. intros. now apply samples_getitem_ess_spec. Qed.

(* row j of a selection is row idx_j of the source, in all fields at once (any index kind) *)
Theorem C16_rows_aligned : forall (X V : Type) (dX : X) (dV : V) i (s : sset X V),
  rows_of X V dX dV (getitem X V dX dV i s) = map (row_at X V dX dV s) (idx_of (length (a_x _ _ s)) i).
Proof. exact getitem_rows. Qed.

(* concatenating the two pieces of any split [0,k) ++ [k,n) restores every per-sample field *)
Theorem C16_concat_partition : forall (X V : Type) (dX : X) (dV : V) (s : sset X V) k,
  wf X V s -> k <= length (a_x _ _ s) ->
  let n := length (a_x _ _ s) in
  let r := concat2 X V (getitem X V dX dV (IList (seq 0 k)) s) (getitem X V dX dV (IList (seq k (n - k))) s) in
  a_x _ _ r = a_x _ _ s /\ a_ll _ _ r = a_ll _ _ s /\ a_lp _ _ r = a_lp _ _ s /\ a_lq _ _ r = a_lq _ _ s
  /\ a_lw _ _ r = a_lw _ _ s /\ a_w _ _ r = a_w _ _ s.
Proof. exact partition2. Qed.

(* any finite sequence of select / pickle / dict-round-trip operations equals one selection of the
   source rows in the plain list-of-rows reference model *)
Theorem C16_sequences : forall (X V : Type) (dX : X) (dV : V) ops (s : sset X V),
  ops_valid ops (length (a_x _ _ s)) ->
  rows_of X V dX dV (fold_left (fun st o => apply_op X V dX dV o st) ops s)
  = map (row_at X V dX dV s) (compose_idx ops (seq 0 (length (a_x _ _ s)))).
Proof. exact ops_refine_top. Qed.

(* ... and what the set carries as a whole — temperature, attached evidence — is carried by the union of its pieces (repair F64:
   concatenate keeps a carried value on which every piece agrees) *)
Theorem C16_concat_partition_carries_scalars : forall (X V : Type) (dX : X) (dV : V) (veqb : V -> V -> bool) idx1 idx2 (s : sset X V),
  (forall v, veqb v v = true) ->
  let r := concat2c X V veqb (getitem X V dX dV (IList idx1) s) (getitem X V dX dV (IList idx2) s) in
  a_beta _ _ r = a_beta _ _ s /\ a_le _ _ r = a_le _ _ s /\ a_lee _ _ r = a_lee _ _ s.
Proof. exact concat2c_getitem_scalars. Qed.

(* concatenation never misaligns rows, whatever optional fields the two sets carry: a field survives only when BOTH have it *)
Theorem C16_concat_keeps_rows_aligned : forall (X V : Type) (a b : sset X V),
  wf X V a -> wf X V b -> wf X V (concat2 X V a b).
Proof. exact concat2_wf. Qed.

Print Assumptions C16_select_uniform.
Print Assumptions C16_select_unweighted_carries_evidence.
Print Assumptions C16_select_ess_of_selection.
Print Assumptions C16_rows_aligned.
Print Assumptions C16_concat_partition.
Print Assumptions C16_concat_partition_carries_scalars.
Print Assumptions C16_concat_keeps_rows_aligned.
Print Assumptions C16_sequences.
