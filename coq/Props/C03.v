(* C03 — the fitted proposal: sampling and evaluation agree; every data-transform Jacobian is accounted for.
   PARTIAL by nature: that exp(log_prob) integrates to one needs a change of variables for the underlying flow's
   density (zuko / flowjax, trusted) — in 1-2 dims it is checked by quadrature in the search; no multivariate
   integration library is available to prove it.  In ONE coordinate the data-transform layer is proved to preserve the
   mass of every interval (the three mass_preserved theorems below), so there the only trusted part is the underlying flow's own density.  What IS proved, about the four methods regenerated from both
   back-ends (Gen/Flows.v), for every base density, every data transform satisfying C04, every batch: *)
From Coq Require Import Reals List Bool.
From Coquelicot Require Import Coquelicot.
From AV Require Import Lib.Vec Gen.Flows Proofs.C03 Proofs.C04 Proofs.C03mass.
Import ListNotations.
Open Scope R_scope.

(* log_prob(x) = base(T x) + log|det dT/dx|, row by row, in both back-ends *)
Theorem C03_log_prob_includes_jacobian_partial : forall {X Z} (Base : Z -> R) (Tfwd_pt : X -> Z) (Tfwd_lj : X -> R) x,
  zuko_log_prob Base Tfwd_pt Tfwd_lj x = map (fun a => Base (Tfwd_pt a) + Tfwd_lj a) x
  /\ flowjax_log_prob Base Tfwd_pt Tfwd_lj x = map (fun a => Base (Tfwd_pt a) + Tfwd_lj a) x.
Proof. intros. split; [apply zuko_log_prob_rows| apply flowjax_log_prob_rows]. Qed.

(* the log-density returned together with drawn samples equals log_prob evaluated at those samples *)
Theorem C03_sample_eval_agree : forall {X Z} (Base : Z -> R) (Tfwd_pt : X -> Z) (Tfwd_lj : X -> R) (Tinv_pt : Z -> X) (Tinv_lj : Z -> R),
  (forall z, Tfwd_pt (Tinv_pt z) = z) -> (forall z, Tfwd_lj (Tinv_pt z) = - Tinv_lj z) ->
  forall zs,
  flowjax_log_prob Base Tfwd_pt Tfwd_lj (flowjax_sample_x Tinv_pt zs) = flowjax_sample_logq Base Tinv_lj zs
  /\ zuko_log_prob Base Tfwd_pt Tfwd_lj (zuko_sample_x Tinv_pt zs (map Base zs)) = zuko_sample_logq Tinv_lj zs (map Base zs).
Proof.
  intros X Z Base Tfwd_pt Tfwd_lj Tinv_pt Tinv_lj H1 H2 zs. split.
  - now apply flowjax_sample_eval_agree.
  - now apply zuko_sample_eval_agree.
Qed.

(* ONE coordinate: a density of the shape just proved, exp(Base(T x) + ln|T'(x)|), carries on every interval [a,b] exactly the
   mass the base density has on [T a, T b] (substitution rule) — for every increasing differentiable data transform ... *)
Theorem C03_mass_preserved_1d_partial : forall (Base T dT : R -> R) (a b : R),
  (forall x, Rmin a b <= x <= Rmax a b -> is_derive T x (dT x) /\ continuous dT x) ->
  (forall x, Rmin a b <= x <= Rmax a b -> continuous Base (T x)) ->
  (forall x, Rmin a b <= x <= Rmax a b -> 0 < dT x) ->
  RInt (fun x => exp (Base (T x) + ln (Rabs (dT x)))) a b = RInt (fun z => exp (Base z)) (T a) (T b).
Proof. exact mass_preserved_incr. Qed.

(* ... in particular for the LogitTransform coordinate (whose derivative is the one C04_logit_forward_logj reports), on every
   closed interval inside (lower, upper) ... *)
Theorem C03_logit_mass_preserved_partial : forall (Base : R -> R) (lo up a b : R),
  lo < up -> lo < Rmin a b -> Rmax a b < up ->
  (forall x, Rmin a b <= x <= Rmax a b -> continuous Base (logit_coord lo up x)) ->
  RInt (fun x => exp (Base (logit_coord lo up x) + ln (Rabs (logit_coord_d lo up x)))) a b
  = RInt (fun z => exp (Base z)) (logit_coord lo up a) (logit_coord lo up b).
Proof. exact logit_mass_preserved. Qed.

(* ... and for the AffineTransform coordinate (standardisation by a positive scale) *)
Theorem C03_affine_mass_preserved_partial : forall (Base : R -> R) (m s a b : R), 0 < s ->
  (forall x, Rmin a b <= x <= Rmax a b -> continuous Base (affine_fwd x m s)) ->
  RInt (fun x => exp (Base (affine_fwd x m s) + ln (Rabs (/ s)))) a b
  = RInt (fun z => exp (Base z)) (affine_fwd a m s) (affine_fwd b m s).
Proof. exact affine_mass_preserved. Qed.

Print Assumptions C03_log_prob_includes_jacobian_partial.
Print Assumptions C03_mass_preserved_1d_partial.
Print Assumptions C03_logit_mass_preserved_partial.
Print Assumptions C03_affine_mass_preserved_partial.
Print Assumptions C03_sample_eval_agree.
