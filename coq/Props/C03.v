(* C03 — the fitted proposal: sampling and evaluation agree; every data-transform Jacobian is accounted for.
   PARTIAL by nature: that exp(log_prob) integrates to one needs a change of variables for the underlying flow's
   density (zuko / flowjax, trusted) — in 1-2 dims it is checked by quadrature in the search; no multivariate
   integration library is available to prove it.  What IS proved, about the four methods regenerated from both
   back-ends (Gen/Flows.v), for every base density, every data transform satisfying C04, every batch: *)
From Coq Require Import Reals List Bool.
From AV Require Import Lib.Vec Gen.Flows Proofs.C03.
Import ListNotations.
Open Scope R_scope.

(* log_prob(x) = base(T x) + log|det dT/dx|, row by row, in both back-ends *)
Theorem C03_log_prob_includes_jacobian_partial : forall {X Z} (Base : Z -> R) (Tfwd_pt : X -> Z) (Tfwd_lj : X -> R) x,
  zuko_log_prob Base Tfwd_pt Tfwd_lj x = map (fun a => Base (Tfwd_pt a) + Tfwd_lj a) x
  /\ flowjax_log_prob Base Tfwd_pt Tfwd_lj x = map (fun a => Base (Tfwd_pt a) + Tfwd_lj a) x.
Proof. intros. split; [apply zuko_log_prob_rows| apply flowjax_log_prob_rows]. Qed.

(* the log-density returned together with drawn samples equals log_prob evaluated at those samples *)
Theorem C03_sample_eval_agree : forall {X Z} (Base : Z -> R) (Tfwd_pt : X -> Z) (Tfwd_lj : X -> R) (Tinv_pt : Z -> X) (Tinv_lj : Z -> R),
  (forall z, Tfwd_pt (Tinv_pt z) = z) -> (forall z, Tfwd_lj (Tinv_pt z) = - Tinv_lj z) ->
  forall zs,
  flowjax_log_prob Base Tfwd_pt Tfwd_lj (flowjax_sample_x Tinv_pt zs) = flowjax_sample_logq Base Tinv_lj zs
  /\ zuko_log_prob Base Tfwd_pt Tfwd_lj (zuko_sample_x Tinv_pt zs (map Base zs)) = zuko_sample_logq Tinv_lj zs (map Base zs).
Proof.
  intros X Z Base Tfwd_pt Tfwd_lj Tinv_pt Tinv_lj H1 H2 zs. split.
  - now apply flowjax_sample_eval_agree.
  - now apply zuko_sample_eval_agree.
Qed.

Print Assumptions C03_log_prob_includes_jacobian_partial.
Print Assumptions C03_sample_eval_agree.
