(* C17 — the prior is evaluated before the likelihood on the same points, and the samples handed to the
   likelihood carry exactly that log-prior; the evaluation counter grows by exactly the number of points
   handed to the likelihood.  For every call site regenerated in Gen/Calls.v (kernel targets of SMC and
   MCMC, post-mutation re-evaluation in both kernels — also used for the final enlargement and resumed
   runs —, importance sampling, Aspire.convert_to_samples) and the initial draw (Model/InitDraw.v). *)
From Coq Require Import Reals List Bool.
From AV Require Import Lib.Vec Lib.XR Gen.Calls Model.InitDraw Proofs.C17.
Import ListNotations.

Theorem C17_call_sites : forall {X Z} (L Pi Q : X -> XR) (Tinv_pt : Z -> X) z znew (x : list X) (lq : list XR) beta n0,
  site_ok Pi (smc_log_prob_calls Pi Tinv_pt z beta n0) (smc_log_prob_count Tinv_pt z beta n0) n0
  /\ site_ok Pi (blackjax_log_prob_calls Pi Tinv_pt z beta n0) (blackjax_log_prob_count Tinv_pt z beta n0) n0
  /\ site_ok Pi (mcmc_log_prob_calls Pi Tinv_pt z n0) (mcmc_log_prob_count Tinv_pt z n0) n0
  /\ site_ok Pi (minipcn_mutate_calls Pi Tinv_pt znew beta n0) (minipcn_mutate_count Tinv_pt znew beta n0) n0
  /\ site_ok Pi (emcee_mutate_calls Pi Tinv_pt znew beta n0) (emcee_mutate_count Tinv_pt znew beta n0) n0
  /\ site_ok Pi (importance_sample_calls Pi x lq n0) (importance_sample_count x lq n0) n0
  /\ prior_first Pi (convert_to_samples_calls Pi x lq) /\ prior_called_before [] (convert_to_samples_calls Pi x lq).
Proof.
  intros. split; [apply smc_log_prob_site|]. split; [apply blackjax_log_prob_site|]. split; [apply mcmc_log_prob_site|]. split; [apply minipcn_mutate_site|].
  split; [apply emcee_mutate_site|]. split; [apply importance_sample_site|]. apply convert_to_samples_site.
Qed.

(* initial draws: the single likelihood call receives the trimmed points together with their own log-prior *)
Theorem C17_initial_draw : forall (X V : Type) (L Pi : X -> V) isfinite batches n rows,
  draw_initial X V L Pi isfinite batches n = Some rows ->
  exists pre, draw_initial_calls X V L Pi isfinite batches n
              = pre ++ [ILik X V (map (fun r => fst (fst (fst r))) rows) (map (fun r => snd (fst r)) rows)]
  /\ map (fun r => snd (fst r)) rows = map Pi (map (fun r => fst (fst (fst r))) rows)
  /\ Forall (fun c => match c with IPrior _ _ _ => True | ILik _ _ _ _ => False end) pre.
Proof. exact initial_draw_calls. Qed.

Print Assumptions C17_call_sites.
Print Assumptions C17_initial_draw.
