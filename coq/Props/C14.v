(* C14 — a checkpoint file stays self-consistent under any sequence of operations.
   Model/FileSM.v (fit / sample_posterior / auto_checkpoint / resume_from_file on one file), validated against
   the implementation after every operation of every script by the check.
   The unguarded invariant is REFUTED (four minimal histories, each replayed on the implementation: known
   findings); it is PROVED for every history all of whose steps satisfy a guard stated on the pre-state. *)
From Coq Require Import List Bool Arith.
From AV Require Import Model.FileSM Proofs.C14.
Import ListNotations.

Theorem C14_invariant_partial : forall ops w,
  consistent (wf w) = true -> all_safe w ops = true -> consistent (wf (fold_left step ops w)) = true.
Proof. exact guarded_histories_consistent. Qed.

Theorem C14_invariant_refuted :
  consistent (wf (fold_left step [Fit 1 true false; Fit 2 true false; Sample SMC true] start)) = false
  /\ consistent (wf (fold_left step [Sample SMC true; Sample Importance true] start)) = false
  /\ consistent (wf (fold_left step [Sample SMC true; Fit 2 true true] start)) = false
  /\ consistent (wf (fold_left step [Sample SMC true; Resume; Fit 2 true false] start)) = false.
Proof.
  split; [exact refuted_refit_then_sample|]. split; [exact refuted_importance_after_smc|].
  split; [exact refuted_fit_overwrite_over_checkpoint| exact refuted_resume_then_fit_rewrites_config].
Qed.

Example C14_guard_satisfiable :
  all_safe start [Fit 1 true false; EnterAuto true; Sample SMC false; ExitAuto; Resume; Sample Importance false; Sample SMC true] = true.
Proof. exact guarded_example. Qed.

Print Assumptions C14_invariant_partial.
Print Assumptions C14_invariant_refuted.
