(* C20 — a random generator supplied by the user is the one actually used (routing part; the
   bit-identical-reruns part is decided by the reproducibility search of the check).
   Finite domain: sampler class x way of supplying the generator, over the signatures regenerated from
   the class definitions (Gen/Routing.v). *)
From Coq Require Import List String Bool.
From AV Require Import Gen.Routing Model.Routing Proofs.C20.
Import ListNotations.

(* PARTIAL: for MiniPCN, MiniPCNSMC (the default "smc"), EmceeSMC and BlackJAXSMC a generator given to the top-level
   sampling call is the effective source, and through every way it is either used or rejected loudly *)
Theorem C20_user_source_used_partial : forall c w, In c good_classes -> In w all_ways ->
  top_level_ok c = true /\ accepted_ok c w = true.
Proof. exact routing_partial_forall. Qed.

(* KNOWN FINDING (known_findings.json): the full statement "for every sampler class" is refuted —
   Emcee accepts rng and never uses it (emcee draws from its own unseeded RandomState). *)
Theorem C20_user_source_used_refuted :
  route CEmcee ViaSample = AcceptedButUnused /\ route CEmcee ViaTopLevel = AcceptedButUnused.
Proof. exact routing_refuted. Qed.

Print Assumptions C20_user_source_used_partial.
Print Assumptions C20_user_source_used_refuted.
