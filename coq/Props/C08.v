(* C08 — the SMC evidence is the accumulated sum of incremental log-ratios, each computed on the
   population as it stood before that iteration's resampling, with the temperatures actually used.
   Holds for every numeric instance (reals and binary64), every oracle, every option record. *)
From Coq Require Import Reals List Bool Arith.
From AV Require Import Lib.Num Lib.Vec Gen.Kernels Model.SMC Proofs.SMCGeneric Proofs.C02 Proofs.C08.
Import ListNotations.

Theorem C08_sum_of_ratios : forall (N : Num) (P G : Type) effq essq ratio ratio_var cte pbeta psize resample_o mutate_o
    fuel o p0 g0 out evs,
  sample N P G effq essq ratio ratio_var cte pbeta psize resample_o mutate_o fuel o p0 g0 = Ok (out, evs) ->
  exists (pops : list P) (bs : list N),
    length pops = S (length bs) /\ hd p0 pops = p0
    /\ h_beta _ _ (o_hist _ _ _ out) = bs
    /\ h_ratio _ _ (o_hist _ _ _ out) = map2 ratio (removelast pops) bs
    /\ h_ratio_var _ _ (o_hist _ _ _ out) = map2 ratio_var (removelast pops) bs
    /\ h_pops _ _ (o_hist _ _ _ out) = (if store_history _ o then pops else [])
    /\ o_log_evidence _ _ _ out = fsum N (map2 ratio (removelast pops) bs)
    /\ o_log_evidence_error _ _ _ out = nsqrt N (fsum N (map2 ratio_var (removelast pops) bs)).
Proof.
  intros. destruct (sample_faithful _ _ _ _ _ _ _ _ _ _ _ _ _ _ _ _ _ _ H)
    as (pops & bs & H1 & H2 & _ & H4 & _ & _ & _ & H8 & H9 & H10 & H11 & H12 & _).
  exists pops, bs. repeat split; assumption.
Qed.

(* independence: the estimate is a function of the recorded ratios only — not of the checkpoint
   options, the final enlargement, or anything the kernel does after the ratio was taken *)
Theorem C08_independent_of_checkpointing_and_enlargement :
  forall (N : Num) (P G : Type) effq essq ratio ratio_var cte pbeta psize resample_o mutate_o fuel o o' p0 g0 out evs out' evs',
  adaptive _ o = adaptive _ o' -> beta_step _ o = beta_step _ o' -> min_step0 _ o = min_step0 _ o' ->
  adaptive_min_step _ o = adaptive_min_step _ o' -> max_n_steps _ o = max_n_steps _ o' -> tol _ o = tol _ o' ->
  store_history _ o = store_history _ o' -> bisect_fuel _ o = bisect_fuel _ o' ->
  sample N P G effq essq ratio ratio_var cte pbeta psize resample_o mutate_o fuel o p0 g0 = Ok (out, evs) ->
  sample N P G effq essq ratio ratio_var cte pbeta psize resample_o mutate_o fuel o' p0 g0 = Ok (out', evs') ->
  o_log_evidence _ _ _ out = o_log_evidence _ _ _ out'
  /\ o_log_evidence_error _ _ _ out = o_log_evidence_error _ _ _ out'
  /\ h_beta _ _ (o_hist _ _ _ out) = h_beta _ _ (o_hist _ _ _ out').
Proof. exact evidence_independent. Qed.

(* each recorded ratio is ln( (1/N) sum exp((beta_t - beta_{t-1}) (log L + log pi - log q)) ) *)
Theorem C08_ratio_definition : forall {X} (x : list X) ll lp lq beta0 beta,
  ll <> [] -> length x = length ll -> length lp = length ll -> length lq = length ll ->
  exp (log_evidence_ratio x ll lp lq beta0 beta)
  = vsum (map exp (map (fun t => (beta - beta0) * t) (compute_weights_log_w x ll lp lq))) / vlen ll.
Proof. exact @log_evidence_ratio_spec. Qed.

Print Assumptions C08_sum_of_ratios.
Print Assumptions C08_independent_of_checkpointing_and_enlargement.
Print Assumptions C08_ratio_definition.
