(* C04 — the parameter transforms of Gen/Transforms.v (generated from aspire/transforms.py): periodic, logit,
   probit, affine.  For each: round trip, reported forward log-Jacobian = sum over coordinates of ln |f_i'(x_i)|
   (derivative witnessed by Coquelicot's is_derive), inverse log-Jacobian at the image = - forward, fit = forward.

   A transform acts on ONE row x : list R; lower/upper/mean/std are per-coordinate lists; the log-Jacobian is one
   real per row.  Everything is written out on coordinates `nth i _ 0`; the only helper from Proofs/C04.v used in
   the statements is the coordinate-wise map over a row and its two parameter lists
       vmap3 f [x1;..;xn] [l1;..;ln] [u1;..;un] = [f x1 l1 u1; ..; f xn ln un]
   plus, for the probit converse round trip, Phi erf y = 1/2 * (1 + erf (y / sqrt 2)), and for the logit one,
   sigmoid1 y = 1 / (1 + exp (- y)).
   "Outside the clipping margin" means u_i = (x_i - lower_i)/(upper_i - lower_i) lies in [eps, 1-eps] (and in (0,1)). *)
From Coq Require Import Reals List Bool ZArith.
From Coquelicot Require Import Coquelicot.
From Coq Require Floats.PrimFloat.
From AV Require Import Lib.Vec Gen.Kernels Gen.Transforms Proofs.C04.
From AV Require Model.PeriodicF Proofs.C04f64.
Import ListNotations.
Open Scope R_scope.

(* ------------------------------------------------------------------------------------------------------ *)
(* PERIODIC                                                                                               *)
(* ------------------------------------------------------------------------------------------------------ *)

(* every coordinate lands in [lower_i, upper_i) and differs from x_i by an integer number of widths *)
Theorem C04_periodic_forward_spec : forall x lower upper : list R,
  length lower = length x -> length upper = length x ->
  (forall i, (i < length x)%nat -> nth i lower 0 < nth i upper 0) ->
  length (periodic_forward_y x lower upper) = length x
  /\ forall i, (i < length x)%nat ->
       nth i lower 0 <= nth i (periodic_forward_y x lower upper) 0 < nth i upper 0
       /\ exists k : Z, nth i (periodic_forward_y x lower upper) 0
                        = nth i x 0 + IZR k * (nth i upper 0 - nth i lower 0).
Proof. exact periodic_forward_spec. Qed.

Theorem C04_periodic_logj_zero : forall x lower upper : list R,
  periodic_forward_logj x lower upper = 0 /\ periodic_inverse_logj x lower upper = 0.
Proof. exact periodic_logj_zero. Qed.

(* a row already inside [lower, upper) is unchanged *)
Theorem C04_periodic_fixed : forall x lower upper : list R,
  length lower = length x -> length upper = length x ->
  (forall i, (i < length x)%nat -> nth i lower 0 <= nth i x 0 < nth i upper 0) ->
  periodic_forward_y x lower upper = x.
Proof. exact periodic_forward_fixed. Qed.

(* wrapping is idempotent: inverse (= wrap again) leaves the forward image unchanged *)
Theorem C04_periodic_inverse_forward : forall x lower upper : list R,
  length lower = length x -> length upper = length x ->
  (forall i, (i < length x)%nat -> nth i lower 0 < nth i upper 0) ->
  periodic_inverse_y (periodic_forward_y x lower upper) lower upper = periodic_forward_y x lower upper.
Proof. exact periodic_inverse_forward. Qed.

Theorem C04_periodic_fit : forall x lower upper : list R,
  periodic_fit_y x lower upper = periodic_forward_y x lower upper.
Proof. exact periodic_fit_forward. Qed.

(* ------------------------------------------------------------------------------------------------------ *)
(* AFFINE                                                                                                 *)
(* ------------------------------------------------------------------------------------------------------ *)

Theorem C04_affine_inverse_forward : forall mean std : list R,
  length mean = length std -> (forall i, (i < length std)%nat -> nth i std 0 <> 0) ->
  forall x, length x = length std ->
  affine_inverse_y (affine_forward_y x mean std) mean std = x.
Proof. exact affine_inverse_forward. Qed.

Theorem C04_affine_forward_inverse : forall mean std : list R,
  length mean = length std -> (forall i, (i < length std)%nat -> nth i std 0 <> 0) ->
  forall y, length y = length std ->
  affine_forward_y (affine_inverse_y y mean std) mean std = y.
Proof. exact affine_forward_inverse. Qed.

(* forward log-Jacobian = - sum ln |std_i| = sum ln |d/dt ((t - mean_i)/std_i)| *)
Theorem C04_affine_forward_logj : forall mean std : list R,
  length mean = length std -> (forall i, (i < length std)%nat -> nth i std 0 <> 0) ->
  forall x, length x = length std ->
  affine_forward_logj x mean std = - vsum (map (fun s => ln (Rabs s)) std)
  /\ (forall i, (i < length x)%nat ->
        is_derive (fun t => (t - nth i mean 0) / nth i std 0) (nth i x 0) (/ nth i std 0))
  /\ affine_forward_logj x mean std = vsum (vmap3 (fun _ _ s => ln (Rabs (/ s))) x mean std).
Proof. exact affine_forward_logj_spec. Qed.

Theorem C04_affine_inverse_logj_neg : forall mean std x : list R,
  affine_inverse_logj (affine_forward_y x mean std) mean std = - affine_forward_logj x mean std.
Proof. exact affine_inverse_logj_neg. Qed.

Theorem C04_affine_fit : forall x mean std : list R,
  affine_fit_y x mean std = affine_forward_y x mean std.
Proof. exact affine_fit_forward. Qed.

(* a history, not one call: the SAME object fitted a second time (Aspire.fit again, refits of a preconditioning flow) is the
   transform of its last fit - maps and log-Jacobians carry nothing over from the first one *)
Theorem C04_affine_refit_is_last_fit : forall x mean0 std0 mean std : list R,
  affine_refit_forward_y x mean0 std0 mean std = affine_forward_y x mean std
  /\ affine_refit_forward_logj x mean0 std0 mean std = affine_forward_logj x mean std
  /\ affine_refit_inverse_y x mean0 std0 mean std = affine_inverse_y x mean std
  /\ affine_refit_inverse_logj x mean0 std0 mean std = affine_inverse_logj x mean std.
Proof. exact affine_refit_is_last_fit. Qed.

(* ------------------------------------------------------------------------------------------------------ *)
(* LOGIT                                                                                                  *)
(* ------------------------------------------------------------------------------------------------------ *)

(* (i) inverse (forward x) = x outside the clipping margin *)
Theorem C04_logit_inverse_forward : forall (x lower upper : list R) (eps : R),
  length lower = length x -> length upper = length x ->
  (forall i, (i < length x)%nat ->
     let lo := nth i lower 0 in let up := nth i upper 0 in let u := (nth i x 0 - lo) / (up - lo) in
     lo < up /\ eps <= u <= 1 - eps /\ 0 < u < 1) ->
  logit_t_inverse_y (logit_t_forward_y x lower upper eps) lower upper eps = x.
Proof. exact logit_inverse_forward. Qed.

(* the forward map is, coordinate by coordinate, t |-> ln u - ln (1 - u), u = (t - lower_i)/(upper_i - lower_i) *)
Theorem C04_logit_forward_coordinates : forall (x lower upper : list R) (eps : R),
  length lower = length x -> length upper = length x ->
  (forall i, (i < length x)%nat ->
     let lo := nth i lower 0 in let up := nth i upper 0 in let u := (nth i x 0 - lo) / (up - lo) in
     lo < up /\ eps <= u <= 1 - eps /\ 0 < u < 1) ->
  forall i, (i < length x)%nat ->
     let lo := nth i lower 0 in let up := nth i upper 0 in let u := (nth i x 0 - lo) / (up - lo) in
     nth i (logit_t_forward_y x lower upper eps) 0 = ln u - ln (1 - u).
Proof. exact logit_forward_nth. Qed.

(* (ii) reported log-Jacobian = sum_i ln f_i'(x_i), with f_i'(x_i) = 1 / (u (1-u) (upper_i - lower_i)) > 0 *)
Theorem C04_logit_forward_logj : forall (x lower upper : list R) (eps : R),
  length lower = length x -> length upper = length x ->
  (forall i, (i < length x)%nat ->
     let lo := nth i lower 0 in let up := nth i upper 0 in let u := (nth i x 0 - lo) / (up - lo) in
     lo < up /\ eps <= u <= 1 - eps /\ 0 < u < 1) ->
  (forall i, (i < length x)%nat ->
     let lo := nth i lower 0 in let up := nth i upper 0 in let u := (nth i x 0 - lo) / (up - lo) in
     is_derive (fun t => ln ((t - lo) / (up - lo)) - ln (1 - (t - lo) / (up - lo))) (nth i x 0)
               (/ (u * (1 - u) * (up - lo)))
     /\ 0 < / (u * (1 - u) * (up - lo)))
  /\ logit_t_forward_logj x lower upper eps
     = vsum (vmap3 (fun t lo up => let u := (t - lo) / (up - lo) in ln (/ (u * (1 - u) * (up - lo))))
                   x lower upper).
Proof. exact logit_forward_logj_derive. Qed.

(* (iii) *)
Theorem C04_logit_inverse_logj_neg : forall (x lower upper : list R) (eps : R),
  length lower = length x -> length upper = length x ->
  (forall i, (i < length x)%nat ->
     let lo := nth i lower 0 in let up := nth i upper 0 in let u := (nth i x 0 - lo) / (up - lo) in
     lo < up /\ eps <= u <= 1 - eps /\ 0 < u < 1) ->
  logit_t_inverse_logj (logit_t_forward_y x lower upper eps) lower upper eps
  = - logit_t_forward_logj x lower upper eps.
Proof. exact logit_inverse_logj_neg. Qed.

(* (iv) forward (inverse y) = y when the sigmoid of every y_i is outside the clipping margin ... *)
Theorem C04_logit_forward_inverse : forall (y lower upper : list R) (eps : R),
  length lower = length y -> length upper = length y ->
  (forall i, (i < length y)%nat -> nth i lower 0 < nth i upper 0) ->
  (forall i, (i < length y)%nat -> eps <= 1 / (1 + exp (- nth i y 0)) <= 1 - eps) ->
  logit_t_forward_y (logit_t_inverse_y y lower upper eps) lower upper eps = y.
Proof. exact logit_forward_inverse. Qed.

(* ... in particular for every y when eps = 0 *)
Theorem C04_logit_forward_inverse_eps0 : forall (y lower upper : list R) (eps : R),
  length lower = length y -> length upper = length y ->
  (forall i, (i < length y)%nat -> nth i lower 0 < nth i upper 0) ->
  eps = 0 ->
  logit_t_forward_y (logit_t_inverse_y y lower upper eps) lower upper eps = y.
Proof. exact logit_forward_inverse_eps0. Qed.

(* (v) *)
Theorem C04_logit_inverse_inside : forall (y lower upper : list R) (eps : R),
  length lower = length y -> length upper = length y ->
  (forall i, (i < length y)%nat -> nth i lower 0 < nth i upper 0) ->
  forall i, (i < length y)%nat ->
  nth i lower 0 < nth i (logit_t_inverse_y y lower upper eps) 0 < nth i upper 0.
Proof. exact logit_inverse_inside. Qed.

(* (vi) *)
Theorem C04_logit_fit : forall (x lower upper : list R) (eps : R),
  logit_t_fit_y x lower upper eps = logit_t_forward_y x lower upper eps.
Proof. exact logit_t_fit_forward. Qed.

(* ------------------------------------------------------------------------------------------------------ *)
(* PROBIT — erf / erfinv are the scipy special functions; what is assumed about them is listed here        *)
(* ------------------------------------------------------------------------------------------------------ *)
Section Probit.
  Variables (erf erfinv : R -> R).
  Hypothesis erf_erfinv : forall t, -1 < t < 1 -> erf (erfinv t) = t.
  Hypothesis erfinv_erf : forall y, erfinv (erf y) = y.
  Hypothesis erf_range : forall y, -1 < erf y < 1.
  Hypothesis erfinv_derive : forall t, -1 < t < 1 ->
    is_derive erfinv t (sqrt PI / 2 * exp (erfinv t * erfinv t)).

  (* (i) *)
  Theorem C04_probit_inverse_forward : forall (x lower upper : list R) (eps : R),
    length lower = length x -> length upper = length x ->
    (forall i, (i < length x)%nat ->
       let lo := nth i lower 0 in let up := nth i upper 0 in let u := (nth i x 0 - lo) / (up - lo) in
       lo < up /\ eps <= u <= 1 - eps /\ 0 < u < 1) ->
    probit_t_inverse_y erf (probit_t_forward_y erfinv x lower upper eps) lower upper eps = x.
  Proof. exact (probit_inverse_forward erf erfinv erf_erfinv). Qed.

  (* the forward map is, coordinate by coordinate, t |-> sqrt 2 * erfinv (2u - 1) *)
  Theorem C04_probit_forward_coordinates : forall (x lower upper : list R) (eps : R),
    length lower = length x -> length upper = length x ->
    (forall i, (i < length x)%nat ->
       let lo := nth i lower 0 in let up := nth i upper 0 in let u := (nth i x 0 - lo) / (up - lo) in
       lo < up /\ eps <= u <= 1 - eps /\ 0 < u < 1) ->
    forall i, (i < length x)%nat ->
       let lo := nth i lower 0 in let up := nth i upper 0 in let u := (nth i x 0 - lo) / (up - lo) in
       nth i (probit_t_forward_y erfinv x lower upper eps) 0 = sqrt 2 * erfinv (2 * u - 1).
  Proof. exact (probit_forward_nth erfinv). Qed.

  (* (ii) reported log-Jacobian = sum_i ln f_i'(x_i), f_i'(x_i) = sqrt(2 PI) exp(y_i^2/2) / (upper_i - lower_i) > 0 *)
  Theorem C04_probit_forward_logj : forall (x lower upper : list R) (eps : R),
    length lower = length x -> length upper = length x ->
    (forall i, (i < length x)%nat ->
       let lo := nth i lower 0 in let up := nth i upper 0 in let u := (nth i x 0 - lo) / (up - lo) in
       lo < up /\ eps <= u <= 1 - eps /\ 0 < u < 1) ->
    (forall i, (i < length x)%nat ->
       let lo := nth i lower 0 in let up := nth i upper 0 in
       let f := fun t => sqrt 2 * erfinv (2 * ((t - lo) / (up - lo)) - 1) in
       is_derive f (nth i x 0) (sqrt (2 * PI) * exp ((f (nth i x 0)) ^ 2 / 2) / (up - lo))
       /\ 0 < sqrt (2 * PI) * exp ((f (nth i x 0)) ^ 2 / 2) / (up - lo))
    /\ probit_t_forward_logj erfinv x lower upper eps
       = vsum (vmap3 (fun t lo up => let yv := sqrt 2 * erfinv (2 * ((t - lo) / (up - lo)) - 1) in
                                     ln (sqrt (2 * PI) * exp (yv ^ 2 / 2) / (up - lo)))
                     x lower upper).
  Proof. exact (probit_forward_logj_derive erfinv erfinv_derive). Qed.

  (* (iii) holds for every row, clipped or not *)
  Theorem C04_probit_inverse_logj_neg : forall (x lower upper : list R) (eps : R),
    length lower = length x -> length upper = length x ->
    probit_t_inverse_logj (probit_t_forward_y erfinv x lower upper eps) lower upper eps
    = - probit_t_forward_logj erfinv x lower upper eps.
  Proof. exact (probit_inverse_logj_neg erfinv). Qed.

  (* (iv) *)
  Theorem C04_probit_forward_inverse : forall (y lower upper : list R) (eps : R),
    length lower = length y -> length upper = length y ->
    (forall i, (i < length y)%nat -> nth i lower 0 < nth i upper 0) ->
    (forall i, (i < length y)%nat -> eps <= 1 / 2 * (1 + erf (nth i y 0 / sqrt 2)) <= 1 - eps) ->
    probit_t_forward_y erfinv (probit_t_inverse_y erf y lower upper eps) lower upper eps = y.
  Proof. exact (probit_forward_inverse erf erfinv erfinv_erf). Qed.

  Theorem C04_probit_forward_inverse_eps0 : forall (y lower upper : list R) (eps : R),
    length lower = length y -> length upper = length y ->
    (forall i, (i < length y)%nat -> nth i lower 0 < nth i upper 0) ->
    eps = 0 ->
    probit_t_forward_y erfinv (probit_t_inverse_y erf y lower upper eps) lower upper eps = y.
  Proof. exact (probit_forward_inverse_eps0 erf erfinv erfinv_erf erf_range). Qed.

  (* (v) *)
  Theorem C04_probit_inverse_inside : forall (y lower upper : list R) (eps : R),
    length lower = length y -> length upper = length y ->
    (forall i, (i < length y)%nat -> nth i lower 0 < nth i upper 0) ->
    forall i, (i < length y)%nat ->
    nth i lower 0 < nth i (probit_t_inverse_y erf y lower upper eps) 0 < nth i upper 0.
  Proof. exact (probit_inverse_inside erf erf_range). Qed.

  (* (vi) *)
  Theorem C04_probit_fit : forall (x lower upper : list R) (eps : R),
    probit_t_fit_y erfinv x lower upper eps = probit_t_forward_y erfinv x lower upper eps.
  Proof. exact (probit_t_fit_forward erfinv). Qed.
End Probit.

Print Assumptions C04_periodic_forward_spec.
Print Assumptions C04_periodic_logj_zero.
Print Assumptions C04_periodic_fixed.
Print Assumptions C04_periodic_inverse_forward.
Print Assumptions C04_periodic_fit.
Print Assumptions C04_affine_inverse_forward.
Print Assumptions C04_affine_forward_inverse.
Print Assumptions C04_affine_forward_logj.
Print Assumptions C04_affine_inverse_logj_neg.
Print Assumptions C04_affine_fit.
Print Assumptions C04_affine_refit_is_last_fit.
Print Assumptions C04_logit_inverse_forward.
Print Assumptions C04_logit_forward_coordinates.
Print Assumptions C04_logit_forward_logj.
Print Assumptions C04_logit_inverse_logj_neg.
Print Assumptions C04_logit_forward_inverse.
Print Assumptions C04_logit_forward_inverse_eps0.
Print Assumptions C04_logit_inverse_inside.
Print Assumptions C04_logit_fit.
Print Assumptions C04_probit_inverse_forward.
Print Assumptions C04_probit_forward_coordinates.
Print Assumptions C04_probit_forward_logj.
Print Assumptions C04_probit_inverse_logj_neg.
Print Assumptions C04_probit_forward_inverse.
Print Assumptions C04_probit_forward_inverse_eps0.
Print Assumptions C04_probit_inverse_inside.
Print Assumptions C04_probit_fit.

(* ------------------------------------------------------------------------------------------------------ *)
(* COMPOSITE                                                                                              *)
(* ------------------------------------------------------------------------------------------------------ *)
From AV Require Import Gen.Composite Proofs.C04composite.

(* any on/off combination of stages (periodic / bounded / affine, each a bijection on its domain with inverse
   log-Jacobian = - forward log-Jacobian): inverse(forward x) = x and the accumulated inverse log-Jacobian is
   minus the accumulated forward one — by induction over the stage list (chain rule => sums) *)
Theorem C04_composite : forall (Row : Type) (l : list (stage_impl Row)),
  List.Forall (stage_ok Row) l -> forall x, comp_dom Row l x ->
  fst (comp_inverse Row l (fst (comp_forward Row l x))) = x
  /\ snd (comp_inverse Row l (fst (comp_forward Row l x))) = - snd (comp_forward Row l x).
Proof. exact composite_roundtrip. Qed.

(* the stage order the code uses (read from CompositeTransform's method bodies): inverse = forward reversed,
   fit = forward, log-Jacobians accumulated by addition *)
Theorem C04_composite_order : inverse_order = rev forward_order /\ fit_order = forward_order /\ accumulates_by_addition = true.
Proof. exact composite_orders. Qed.

Print Assumptions C04_composite.
Print Assumptions C04_composite_order.

(* KNOWN FINDING (known_findings.json: periodic-range-f64:tiny-negative-offset).  C04_periodic_forward_spec is about exact reals.
   In binary64 the half-open range is refuted: on the model of the wrap that the C04 check ties bit for bit to
   PeriodicTransform.forward (Model/PeriodicF.v, valid for |x - lower| < width), x = -1e-17 on [0, 2 pi) is mapped to exactly
   upper.  Witness evaluated by vm_compute. *)
Theorem C04_periodic_range_binary64_refuted :
  exists x lo up : PrimFloat.float,
    PeriodicF.fwrap_dom x lo up = true /\ PrimFloat.ltb lo up = true /\ PrimFloat.ltb x lo = true
    /\ PrimFloat.eqb (PeriodicF.fwrap x lo up) up = true.
Proof. exact C04f64.periodic_range_binary64_refuted. Qed.
Print Assumptions C04_periodic_range_binary64_refuted.
