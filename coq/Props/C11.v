(* C11 — resuming from any checkpoint reproduces the uninterrupted run.
   For every reachable checkpoint payload c emitted by a run (at any iteration, or the forced
   final one), the resumed run — restore c, then the same loop and epilogue — returns exactly the
   same output (population, temperatures, evidence, every history series, generator state) and
   emits a suffix of the original checkpoint sequence.  Every oracle, every valid option record. *)
From Coq Require Import Reals List Bool Arith.
From AV Require Import Lib.Num Model.SMC Proofs.Schedule Proofs.SMCGeneric Proofs.SMCReal.
Import ListNotations.
Open Scope R_scope.

Theorem C11_resume_equals_uninterrupted :
  forall (P G : Type) (effq essq ratio ratio_var : P -> R -> R) (cte : R -> R) (pbeta : P -> R) (psize : P -> nat)
         (resample_o : G -> P -> R -> option nat -> P * G) (mutate_o : G -> P -> R -> bool -> P * G),
  (* resampling to a requested size returns that size; the kernel keeps the size *)
  (forall g p b n, psize (fst (resample_o g p b (Some n))) = n) ->
  (forall g p b f, psize (fst (mutate_o g p b f)) = psize p) ->
  forall fuel o p0 g0 out evs,
  valid o ->
  sample NumR P G effq essq ratio ratio_var cte pbeta psize resample_o mutate_o fuel o p0 g0 = Ok (out, evs) ->
  forall c, In c evs ->
  exists evs',
    sample_resumed NumR P G effq essq ratio ratio_var cte pbeta psize resample_o mutate_o fuel o c = Ok (out, evs')
    /\ is_suffix evs' evs.
Proof. exact resume_equals_uninterrupted. Qed.

(* what a payload must contain for that: restore is the inverse of mk_ckpt on the loop state *)
Theorem C11_restore_inverts_payload : forall (N : Num) (P G : Type) (o : opts N) (st : state N P G) ev,
  (adaptive_min_step _ o = false -> s_min_step _ _ _ st = min_step0 _ o) ->
  restore N P G o (mk_ckpt N P G st ev) = st.
Proof. exact restore_mk. Qed.

Print Assumptions C11_resume_equals_uninterrupted.
Print Assumptions C11_restore_inverts_payload.
