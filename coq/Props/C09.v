(* C09 — resampling selects by incremental weight and copies particles intact.
   About SMCSamples.resample as regenerated in Gen/Kernels.v (probability vector handed to the
   generator) and Gen/Rows.v (the rows of the returned population, for ANY index vector the generator returns). *)
From Coq Require Import Reals List Bool.
From AV Require Import Lib.Vec Lib.Soa Gen.Kernels Gen.Rows Gen.Composite Proofs.C02 Proofs.C09.
Import ListNotations.
Open Scope R_scope.

(* p_i = w_i / sum w with w_i = exp((beta - beta0) (log L + log pi - log q)_i): a probability vector *)
Theorem C09_probs : forall {X} (x : list X) ll lp lq b0 b,
  ll <> [] -> length x = length ll -> length lp = length ll -> length lq = length ll ->
  resample_probs x ll lp lq b0 b = softmax (incr_lw x ll lp lq b0 b)
  /\ vsum (resample_probs x ll lp lq b0 b) = 1
  /\ Forall (fun p => 0 < p) (resample_probs x ll lp lq b0 b)
  /\ length (resample_probs x ll lp lq b0 b) = length ll.
Proof.
  intros X x ll lp lq b0 b Hne Hx Hp Hq. split; [now apply resample_probs_spec|].
  now apply resample_probs_distribution.
Qed.

(* every output row j is an exact copy of ONE source row idx[j]: coordinates and all three log-densities *)
Theorem C09_rows_intact : forall {X} (x : list X) ll lp lq b0 b idx dX j, (j < length idx)%nat ->
  let src := nth j idx 0%nat in
  nth j (resample_rows_x x ll lp lq b0 b idx dX) dX = nth src x dX
  /\ nth j (resample_rows_log_likelihood x ll lp lq b0 b idx dX) 0 = nth src ll 0
  /\ nth j (resample_rows_log_prior x ll lp lq b0 b idx dX) 0 = nth src lp 0
  /\ nth j (resample_rows_log_q x ll lp lq b0 b idx dX) 0 = nth src lq 0.
Proof. exact @resample_rows_intact. Qed.

(* requested size (the length of the index vector) and the new temperature *)
Theorem C09_size_beta : forall {X} (x : list X) ll lp lq b0 b idx dX,
  length (resample_rows_x x ll lp lq b0 b idx dX) = length idx
  /\ length (resample_rows_log_likelihood x ll lp lq b0 b idx dX) = length idx
  /\ length (resample_rows_log_prior x ll lp lq b0 b idx dX) = length idx
  /\ length (resample_rows_log_q x ll lp lq b0 b idx dX) = length idx
  /\ resample_rows_beta x ll lp lq b0 b idx dX = b.
Proof. exact @resample_rows_size_beta. Qed.

(* "draws every new particle ... with probability proportional to ...": the generator is consulted exactly once, over the WHOLE
   population, WITH replacement (independent draws), with the probability vector of C09_probs - read from the call in the method body
   (Gen/Composite.v); what numpy's Generator.choice does with these arguments is trusted *)
Theorem C09_one_draw_with_replacement :
  resample_choice_calls = 1%nat /\ resample_draws_with_replacement = true /\ resample_draws_from_whole_population = true.
Proof. repeat split; reflexivity. Qed.

Print Assumptions C09_probs.
Print Assumptions C09_rows_intact.
Print Assumptions C09_size_beta.
Print Assumptions C09_one_draw_with_replacement.
