(* C07 — adaptive temperature steps meet the ESS target and are maximal (up to the tolerance).
   About determine_beta of Model/SMC.v at exact reals, for every efficiency curve (= every
   population), plus the translated kernels (Gen/Kernels.v) that define that curve in the code. *)
From Coq Require Import Reals List Bool Arith Lra.
From AV Require Import Lib.Num Lib.Vec Gen.Kernels Model.SMC Proofs.Schedule Proofs.C02 Proofs.C07.
Import ListNotations.
Open Scope R_scope.

(* the bracket: a = largest temperature found admissible (efficiency >= target in force at the
   current temperature), bb = upper bracket, bb - a <= tol, efficiency at bb below target unless a = 1;
   the proposed step bs is a — or bb when nothing above the current temperature was admissible;
   the temperature actually taken differs from bs only through the minimum-step floor and the clamp *)
Theorem C07_bracket : forall (P : Type) (effq : P -> R -> R) (cte : R -> R) o p beta ms b ms' tr,
  valid o -> adaptive NumR o = true -> 0 <= beta < 1 -> cte beta <= effq p beta ->
  determine_beta NumR P effq cte o p beta ms = Ok (b, ms', tr) ->
  exists a bb bs,
    beta <= a <= bb /\ bb <= 1 /\ bb - a <= tol NumR o
    /\ cte beta <= effq p a
    /\ (a = 1 \/ effq p bb < cte beta)
    /\ bs = (if Rleb' a beta then bb else a)
    /\ ms' = (if adaptive_min_step NumR o && Rltb' bs 1 then ms * (1 - beta) / (1 - bs) else ms)
    /\ b = pymin NumR (pymax NumR bs (beta + ms')) 1.
Proof. exact determine_beta_bracket. Qed.

(* maximality: when the efficiency is non-increasing in the temperature, nothing at or beyond the
   upper bracket (i.e. beyond a + tol) meets the target *)
Theorem C07_maximal_if_monotone : forall (P : Type) (effq : P -> R -> R) (cte : R -> R) p beta a bb,
  (forall x y, beta <= x <= y -> y <= 1 -> effq p y <= effq p x) ->
  beta <= a <= bb -> bb <= 1 -> effq p bb < cte beta ->
  forall y, bb <= y <= 1 -> effq p y < cte beta.
Proof. exact bracket_maximal. Qed.

(* what the efficiency curve IS in the code: ESS of the incremental weights
   (beta - beta0) * (log L + log pi - log q), invariant under the normalising constant log_weights adds *)
Theorem C07_incremental_weight : forall {X} (x : list X) ll lp lq beta0 beta,
  ll <> [] -> length x = length ll -> length lp = length ll -> length lq = length ll ->
  effective_sample_size (log_weights x ll lp lq beta0 beta)
  = ess_of (map exp (map (fun t => (beta - beta0) * t) (compute_weights_log_w x ll lp lq))).
Proof. exact @ess_log_weights. Qed.

(* the target in force: scalar, or the ramp e0 + (e1 - e0) * beta^rate *)
Theorem C07_target_in_force : forall e0 e1 rate beta scalar,
  current_target_efficiency_adaptive e0 e1 rate beta = e0 + (e1 - e0) * rpow beta rate
  /\ current_target_efficiency_scalar scalar beta = scalar.
Proof. exact cte_spec. Qed.

Print Assumptions C07_bracket.
Print Assumptions C07_maximal_if_monotone.
Print Assumptions C07_incremental_weight.
Print Assumptions C07_target_in_force.
