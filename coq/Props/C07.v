(* C07 — adaptive temperature steps meet the ESS target and are maximal (up to the tolerance).
   About determine_beta of Model/SMC.v at exact reals, for every efficiency curve (= every
   population), plus the translated kernels (Gen/Kernels.v) that define that curve in the code. *)
From Coq Require Import Reals List Bool Arith Lra.
From AV Require Import Lib.Num Lib.Vec Gen.Kernels Model.SMC Proofs.Schedule Proofs.C02 Proofs.C07 Proofs.C07mono.
Import ListNotations.
Open Scope R_scope.

(* the bracket: a = largest temperature found admissible (efficiency >= target in force at the
   current temperature), bb = upper bracket, bb - a <= tol, efficiency at bb below target unless a = 1;
   the proposed step bs is a — or bb when nothing above the current temperature was admissible;
   the temperature actually taken differs from bs only through the minimum-step floor and the clamp *)
Theorem C07_bracket : forall (P : Type) (effq : P -> R -> R) (cte : R -> R) o p beta ms b ms' tr,
  valid o -> adaptive NumR o = true -> 0 <= beta < 1 -> cte beta <= effq p beta ->
  determine_beta NumR P effq cte o p beta ms = Ok (b, ms', tr) ->
  exists a bb bs,
    beta <= a <= bb /\ bb <= 1 /\ bb - a <= tol NumR o
    /\ cte beta <= effq p a
    /\ (a = 1 \/ effq p bb < cte beta)
    /\ bs = (if Rleb' a beta then bb else a)
    /\ ms' = (if adaptive_min_step NumR o && Rltb' bs 1 then ms * (1 - beta) / (1 - bs) else ms)
    /\ b = pymin NumR (pymax NumR bs (beta + ms')) 1.
Proof. exact determine_beta_bracket. Qed.

(* maximality: when the efficiency is non-increasing in the temperature, nothing at or beyond the
   upper bracket (i.e. beyond a + tol) meets the target *)
Theorem C07_maximal_if_monotone : forall (P : Type) (effq : P -> R -> R) (cte : R -> R) p beta a bb,
  (forall x y, beta <= x <= y -> y <= 1 -> effq p y <= effq p x) ->
  beta <= a <= bb -> bb <= 1 -> effq p bb < cte beta ->
  forall y, bb <= y <= 1 -> effq p y < cte beta.
Proof. exact bracket_maximal. Qed.

(* what the efficiency curve IS in the code: ESS of the incremental weights
   (beta - beta0) * (log L + log pi - log q), invariant under the normalising constant log_weights adds *)
Theorem C07_incremental_weight : forall {X} (x : list X) ll lp lq beta0 beta,
  ll <> [] -> length x = length ll -> length lp = length ll -> length lq = length ll ->
  effective_sample_size (log_weights x ll lp lq beta0 beta)
  = ess_of (map exp (map (fun t => (beta - beta0) * t) (compute_weights_log_w x ll lp lq))).
Proof. exact @ess_log_weights. Qed.

(* the target in force: scalar, or the ramp e0 + (e1 - e0) * beta^rate *)
Theorem C07_target_in_force : forall e0 e1 rate beta scalar,
  current_target_efficiency_adaptive e0 e1 rate beta = e0 + (e1 - e0) * rpow beta rate
  /\ current_target_efficiency_scalar scalar beta = scalar.
Proof. exact cte_spec. Qed.

(* the monotonicity hypothesis above is not an assumption about the code: the curve the code's
   temperature search queries — effective_sample_size(samples.log_weights(b)) / len(samples), the
   translated kernels — is non-increasing in b on [beta0, oo) for EVERY population (d/db log ESS is
   twice the difference of two tilted means, ordered by Cauchy-Schwarz) ... *)
Theorem C07_code_curve_nonincreasing : forall {X} (x : list X) ll lp lq beta0 b1 b2,
  ll <> [] -> length x = length ll -> length lp = length ll -> length lq = length ll ->
  beta0 <= b1 <= b2 ->
  effective_sample_size (log_weights x ll lp lq beta0 b2) / vlen x
  <= effective_sample_size (log_weights x ll lp lq beta0 b1) / vlen x.
Proof. exact @code_curve_nonincreasing. Qed.
(* ... hence once the upper bracket misses the target, every larger temperature misses it *)
Theorem C07_code_curve_maximal : forall {X} (x : list X) ll lp lq beta0 bb target,
  ll <> [] -> length x = length ll -> length lp = length ll -> length lq = length ll ->
  beta0 <= bb ->
  effective_sample_size (log_weights x ll lp lq beta0 bb) / vlen x < target ->
  forall y, bb <= y ->
  effective_sample_size (log_weights x ll lp lq beta0 y) / vlen x < target.
Proof. exact @code_curve_maximal. Qed.
(* the pure statement about weights exp(d * a_i), d >= 0 *)
Theorem C07_ess_of_tempered_weights_nonincreasing : forall (a : list R) s t, a <> [] -> 0 <= s <= t ->
  ess_of (map exp (map (fun x => t * x) a)) <= ess_of (map exp (map (fun x => s * x) a)).
Proof. exact ess_incremental_nonincreasing. Qed.
Print Assumptions C07_bracket.
Print Assumptions C07_maximal_if_monotone.
Print Assumptions C07_incremental_weight.
Print Assumptions C07_target_in_force.
Print Assumptions C07_code_curve_nonincreasing.
Print Assumptions C07_code_curve_maximal.
Print Assumptions C07_ess_of_tempered_weights_nonincreasing.
