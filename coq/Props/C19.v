(* C19 — temporary overrides are fully restored on every exit path (Model/Contexts.v: PoolHandler and
   Aspire.auto_checkpoint as a small language with exceptions; attributes compared by identity). *)
From Coq Require Import List Bool Arith.
From AV Require Import Model.Contexts Proofs.C19.
Import ListNotations.

(* for EVERY program — any nesting depth of the two contexts, an exception raised at any position —
   the likelihood and the prior are afterwards the very objects they were before *)
Theorem C19_callables_restored : forall p w,
  i_ll (w_inst (fst (exec p w))) = i_ll (w_inst w) /\ i_lp (w_inst (fst (exec p w))) = i_lp (w_inst w).
Proof. exact exec_callables. Qed.

(* leaving the automatic-checkpoint context restores the checkpoint defaults to exactly what they were on
   entry (including "attribute absent"), whatever the body did and however it ended *)
Theorem C19_defaults_restored : forall path every sc sf body w,
  i_defaults (w_inst (fst (exec (WithAuto path every sc sf body) w))) = i_defaults (w_inst w).
Proof. exact auto_restores. Qed.

Theorem C19_nested_both_restore : forall pool close par path every sc sf body w,
  w_inst (fst (exec (WithPool pool close par (WithAuto path every sc sf body)) w)) = w_inst w
  /\ w_inst (fst (exec (WithAuto path every sc sf (WithPool pool close par body)) w)) = w_inst w.
Proof. exact both_restore. Qed.

(* the pool is closed exactly when asked to, once, after the body; exceptions propagate unchanged *)
Theorem C19_pool_closed_iff_asked : forall pool close par body w,
  w_closed (fst (exec (WithPool pool close par body) w))
  = w_closed (fst (exec body (set_inst w (entered pool par (w_inst w)))))
    ++ (match close, pool with true, Some k => [k] | _, _ => [] end)
  /\ snd (exec (WithPool pool close par body) w) = snd (exec body (set_inst w (entered pool par (w_inst w)))).
Proof. intros. split; [apply pool_closed_iff_asked| apply outcome_propagates_pool]. Qed.

Print Assumptions C19_callables_restored.
Print Assumptions C19_defaults_restored.
Print Assumptions C19_nested_both_restore.
Print Assumptions C19_pool_closed_iff_asked.
