(* C15 — array-namespace and dtype conversions preserve values and precision.
   Finite-domain theorem (the bound IS the statement): over every sample class x source namespace x
   float width x dtype spelling (none / string / native object) x optional-field subset x target
   namespace x target dtype spelling, with the array-library behaviour std_oracle that the check
   probes from the installed numpy / torch / jax on every run. *)
From Coq Require Import List Bool.
From AV Require Import Model.Convert Proofs.C15.
Import ListNotations.

Theorem C15_all_pairs : forall c src w sp f tgt d2,
  In c all_cls -> In src all_ns -> In w all_w -> In sp (spellings src w) -> In f all_fields ->
  In tgt all_ns -> In d2 (target_spellings tgt) ->
  let k := {| k_cls := c; k_src := src; k_w := w; k_spell := sp; k_fields := f; k_tgt := tgt; k_d2 := d2 |} in
  ok_to_namespace std_oracle k = true      (* every ordered pair converts: target namespace + its own dtype object, width kept or as requested, fields kept *)
  /\ ok_from_samples std_oracle k = true   (* ... also through cls.from_samples into any class *)
  /\ ok_to_numpy std_oracle k = true       (* ... and to_numpy of all three classes *)
  /\ ok_requested_precision std_oracle k = true.  (* a requested precision is the precision held, and the SMC result keeps it *)
Proof.
  intros c src w sp f tgt d2 H1 H2 H3 H4 H5 H6 H7 k.
  apply conversions_ok. apply space_complete; assumption.
Qed.

Theorem C15_space_is_exhaustive : space_size = 3240.
Proof. vm_compute. reflexivity. Qed.

Print Assumptions C15_all_pairs.
Print Assumptions C15_space_is_exhaustive.
