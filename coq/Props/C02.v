(* C02 — property theorems only. Each is closed by `exact` of a lemma from Proofs/C02.v and is about
   the definitions regenerated from samples.py / utils.py (Gen/Kernels.v). *)
From Coq Require Import Reals List Permutation.
From AV Require Import Lib.Vec Gen.Kernels Proofs.C02.
From AV Require Import Lib.XR Gen.KernelsX Proofs.C02x.
Import ListNotations.
Open Scope R_scope.

(* log_w[i] = log L[i] + log pi[i] - log q[i], for every row, any population *)
Theorem C02_log_w : forall {X} (x : list X) ll lp lq,
  length x = length ll -> length lp = length ll -> length lq = length ll ->
  forall i, (i < length ll)%nat ->
  nth i (compute_weights_log_w x ll lp lq) 0 = nth i ll 0 + nth i lp 0 - nth i lq 0.
Proof. exact @cw_log_w_nth. Qed.
Print Assumptions C02_log_w.

(* the max-shift inside logsumexp is invisible: exp(logsumexp l) = sum exp l *)
Theorem C02_logsumexp : forall l, l <> [] -> exp (logsumexp l) = vsum (map exp l).
Proof. exact logsumexp_spec. Qed.
Print Assumptions C02_logsumexp.

(* log-evidence is the log of the mean weight *)
Theorem C02_log_evidence : forall {X} (x : list X) ll lp lq,
  ll <> [] -> length x = length ll -> length lp = length ll -> length lq = length ll ->
  exp (compute_weights_log_evidence x ll lp lq)
  = vsum (map exp (compute_weights_log_w x ll lp lq)) / vlen ll.
Proof. exact @cw_log_evidence. Qed.
Print Assumptions C02_log_evidence.

(* ESS = (sum w)^2 / sum w^2 of the (unshifted) weights, and 1 <= ESS <= N *)
Theorem C02_ess_formula : forall {X} (x : list X) ll lp lq,
  ll <> [] -> length x = length ll -> length lp = length ll -> length lq = length ll ->
  compute_weights_ess x ll lp lq = ess_of (map exp (compute_weights_log_w x ll lp lq)).
Proof. exact @cw_ess. Qed.
Print Assumptions C02_ess_formula.

Theorem C02_ess_bounds : forall {X} (x : list X) ll lp lq,
  ll <> [] -> length x = length ll -> length lp = length ll -> length lq = length ll ->
  1 <= compute_weights_ess x ll lp lq <= vlen ll.
Proof. exact @cw_ess_bounds. Qed.
Print Assumptions C02_ess_bounds.

Theorem C02_free_function_ess : forall l, l <> [] -> effective_sample_size l = ess_of (map exp l).
Proof. exact effective_sample_size_spec. Qed.
Print Assumptions C02_free_function_ess.

(* permuting the rows: same evidence, same ESS, log-weights permuted the same way *)
Theorem C02_perm_invariant : forall {X} (x x' : list X) rows rows',
  Permutation rows rows' -> length x = length x' ->
  compute_weights_log_evidence x (row_ll rows) (row_lp rows) (row_lq rows)
  = compute_weights_log_evidence x' (row_ll rows') (row_lp rows') (row_lq rows')
  /\ compute_weights_ess x (row_ll rows) (row_lp rows) (row_lq rows)
  = compute_weights_ess x' (row_ll rows') (row_lp rows') (row_lq rows')
  /\ Permutation (compute_weights_log_w x (row_ll rows) (row_lp rows) (row_lq rows))
                 (compute_weights_log_w x' (row_ll rows') (row_lp rows') (row_lq rows')).
Proof. exact @cw_perm. Qed.
Print Assumptions C02_perm_invariant.

(* adding c to every log-likelihood: log-evidence shifts by c, ESS unchanged *)
Theorem C02_shift : forall {X} (x : list X) rows c, rows <> [] -> length x = length rows ->
  let rows' := map (fun r => (fst (fst r) + c, snd (fst r), snd r)) rows in
  compute_weights_log_evidence x (row_ll rows') (row_lp rows') (row_lq rows')
  = compute_weights_log_evidence x (row_ll rows) (row_lp rows) (row_lq rows) + c
  /\ compute_weights_ess x (row_ll rows') (row_lp rows') (row_lq rows')
  = compute_weights_ess x (row_ll rows) (row_lp rows) (row_lq rows).
Proof. exact @cw_shift. Qed.
Print Assumptions C02_shift.

(* the reported relative evidence error is the standard error of the mean weight over the mean weight *)
Theorem C02_relative_error : forall {X} (x : list X) ll lp lq,
  length x = length ll -> length lp = length ll -> length lq = length ll -> (2 <= length ll)%nat ->
  compute_weights_log_evidence_error x ll lp lq = rel_err (map exp (compute_weights_log_w x ll lp lq)).
Proof. exact @cw_log_evidence_error. Qed.
Print Assumptions C02_relative_error.

(* "finite and accurate far outside the range of exp()": every argument handed to exp on the way to the
   log-evidence and to the relative error is <= 0 with at least one equal to 0 (so the inner sum is in
   [1, N]); every one on the way to the ESS is <= ln N. *)
Theorem C02_no_overflow_log_evidence : forall {X} (x : list X) ll lp lq,
  ll <> [] -> length x = length ll -> length lp = length ll -> length lq = length ll ->
  Forall (fun t => t <= 0) (compute_weights_log_evidence_expargs x ll lp lq)
  /\ In 0 (compute_weights_log_evidence_expargs x ll lp lq).
Proof. exact @no_overflow_log_evidence. Qed.
Print Assumptions C02_no_overflow_log_evidence.

Theorem C02_no_overflow_relative_error : forall {X} (x : list X) ll lp lq,
  ll <> [] -> length x = length ll -> length lp = length ll -> length lq = length ll ->
  Forall (fun t => t <= 0) (compute_weights_log_evidence_error_expargs x ll lp lq)
  /\ In 0 (compute_weights_log_evidence_error_expargs x ll lp lq).
Proof. exact @no_overflow_log_evidence_error. Qed.
Print Assumptions C02_no_overflow_relative_error.

Theorem C02_no_overflow_ess : forall {X} (x : list X) ll lp lq,
  ll <> [] -> length x = length ll -> length lp = length ll -> length lq = length ll ->
  Forall (fun t => t <= ln (vlen ll)) (compute_weights_ess_expargs x ll lp lq).
Proof. exact @no_overflow_ess. Qed.
Print Assumptions C02_no_overflow_ess.

Theorem C02_scaled_weights : forall lw i, (i < length lw)%nat ->
  nth i (scaled_weights lw) 0 = exp (nth i lw 0) / exp (vmax lw)
  /\ Forall (fun t => t <= 0) (scaled_weights_expargs lw).
Proof. intros lw i Hi. split; [exact (scaled_weights_nth lw i Hi) | exact (scaled_weights_expargs_nonpos lw)]. Qed.
Print Assumptions C02_scaled_weights.

(* rejection sampling keeps row i exactly when u_i < w_i / max w *)
Theorem C02_rejection_rule : forall lw u i, (i < length lw)%nat -> (i < length u)%nat -> 0 < nth i u 1 ->
  nth i (rejection_accept lw u) false = true <-> nth i u 1 < exp (nth i lw 0) / exp (vmax lw).
Proof. exact rejection_accept_nth. Qed.
Print Assumptions C02_rejection_rule.

(* non-vacuity: the hypotheses are met by a concrete three-row population *)
Example C02_hypotheses_satisfiable :
  let ll := [1; 2; 3] in let lp := [0; 0; 0] in let lq := [1; 1; 1] in let x := [tt; tt; tt] in
  ll <> [] /\ length x = length ll /\ length lp = length ll /\ length lq = length ll /\ (2 <= length ll)%nat.
Proof. cbv zeta; simpl; repeat split; try congruence; auto. Qed.

(* ---- "a subset equal to -inf": the same source functions translated over XR = reals + NaN / -inf / +inf with the IEEE
   rules (Gen/KernelsX.v).  `fins lw` are the finite log-weights, in order; a row is admissible if it is finite or -inf
   (that is what zero likelihood or zero prior produce: log_w_rows_ok).  A -inf row has weight zero: it drops out of the
   sums but still counts in N.  Nothing becomes NaN as long as one row is finite. *)
Theorem C02_neg_inf_rows_log_evidence : forall {X} (x : list X) ll lp lq,
  let lw := xcompute_weights_log_w x ll lp lq in
  Forall xrow_ok lw -> fins lw <> [] -> x <> [] ->
  xcompute_weights_log_evidence x ll lp lq = Fin (ln (vsum (map exp (fins lw)) / INR (length x))).
Proof. exact @x_log_evidence. Qed.
Print Assumptions C02_neg_inf_rows_log_evidence.

Theorem C02_neg_inf_rows_ess : forall {X} (x : list X) ll lp lq,
  let lw := xcompute_weights_log_w x ll lp lq in
  Forall xrow_ok lw -> fins lw <> [] ->
  xcompute_weights_ess x ll lp lq = Fin (ess_of (map exp (fins lw)))
  /\ 1 <= ess_of (map exp (fins lw)) <= INR (length (fins lw)).
Proof. exact @x_ess. Qed.
Print Assumptions C02_neg_inf_rows_ess.

(* admissible rows arise from -inf likelihoods / priors with a finite proposal density *)
Theorem C02_neg_inf_rows_admissible : forall {X} (x : list X) ll lp lq,
  Forall xrow_ok ll -> Forall xrow_ok lp -> Forall xfinite lq -> Forall xrow_ok (xcompute_weights_log_w x ll lp lq).
Proof. intros X x ll lp lq. exact (log_w_rows_ok ll lp lq). Qed.
Print Assumptions C02_neg_inf_rows_admissible.

(* the error branch is not hidden: if EVERY log-weight is -inf the log-sum-exp is NaN (as in the code: -inf - -inf) *)
Theorem C02_all_neg_inf_is_nan : forall l, l <> [] -> Forall (fun a => a = NInf) l -> xlogsumexp l = NaN.
Proof. exact x_logsumexp_all_ninf. Qed.
Print Assumptions C02_all_neg_inf_is_nan.
