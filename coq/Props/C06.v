(* C06 — the SMC temperature schedule strictly increases, ends exactly at 1, terminates.
   Statements about Model/SMC.v (sample / determine_beta) at the exact-real instance, for EVERY
   efficiency/ESS/ratio oracle (= every population), every kernel and random stream, every valid
   option record; plus the binary64 statement for the fixed schedule over a finite domain. *)
From Coq Require Import Reals List Bool Arith ZArith Lra Lia.
From AV Require Import Lib.Num Model.SMC Proofs.Schedule Proofs.SMCGeneric Proofs.SMCReal Proofs.FixedF64 Proofs.StallF64.
Import ListNotations.
Open Scope R_scope.

Section Statements.
  Variables (P G : Type).
  Variables (effq essq ratio ratio_var : P -> R -> R) (cte : R -> R) (pbeta : P -> R) (psize : P -> nat).
  Variables (resample_o : G -> P -> R -> option nat -> P * G) (mutate_o : G -> P -> R -> bool -> P * G).
  Notation SAMPLE := (sample NumR P G effq essq ratio ratio_var cte pbeta psize resample_o mutate_o).

  (* strictly increasing from 0, every temperature in (0,1], one per iteration, final one exactly 1
     unless the step cap stopped the run, and the cap is never exceeded *)
  Theorem C06_schedule : forall fuel o p0 g0 out evs,
    valid o -> SAMPLE fuel o p0 g0 = Ok (out, evs) ->
    let bs := h_beta _ _ (o_hist _ _ _ out) in
    incr_from 0 bs /\ Forall (fun b => 0 < b <= 1) bs /\ bs <> []
    /\ o_iter _ _ _ out = length bs
    /\ (last bs 0 = 1 \/ exists m, max_n_steps NumR o = Some m /\ (m <= length bs)%nat)
    /\ (forall m, max_n_steps NumR o = Some m -> (0 < m)%nat -> (length bs <= m)%nat).
  Proof. exact (sample_schedule P G effq essq ratio ratio_var cte pbeta psize resample_o mutate_o). Qed.

  (* the same holds for a run RESUMED from any payload the run emitted (a mid-run one, or the last one of a run that had already
     stopped at temperature 1 or at its step cap): the resumed run adds no step beyond what the uninterrupted run took *)
  Theorem C06_schedule_resumed :
    (forall g p b n, psize (fst (resample_o g p b (Some n))) = n) ->
    (forall g p b f, psize (fst (mutate_o g p b f)) = psize p) ->
    forall fuel o p0 g0 out evs,
    valid o -> SAMPLE fuel o p0 g0 = Ok (out, evs) ->
    forall c, In c evs ->
    exists out' evs',
      sample_resumed NumR P G effq essq ratio ratio_var cte pbeta psize resample_o mutate_o fuel o c = Ok (out', evs')
      /\ let bs := h_beta _ _ (o_hist _ _ _ out') in
         incr_from 0 bs /\ Forall (fun b => 0 < b <= 1) bs /\ bs <> []
         /\ o_iter _ _ _ out' = length bs
         /\ (last bs 0 = 1 \/ exists m, max_n_steps NumR o = Some m /\ (m <= length bs)%nat)
         /\ (forall m, max_n_steps NumR o = Some m -> (0 < m)%nat -> (length bs <= m)%nat).
  Proof. exact (sample_schedule_resumed P G effq essq ratio ratio_var cte pbeta psize resample_o mutate_o). Qed.

  (* never raises, never spins: an explicit iteration bound (ceil(2/tol) adaptive, ceil(2n) fixed) suffices *)
  Theorem C06_terminates_no_error : forall f o p0 g0,
    valid o -> fuel_ok o -> 1 <= INR f * delta o -> exists r, SAMPLE f o p0 g0 = Ok r.
  Proof. exact (sample_terminates P G effq essq ratio ratio_var cte pbeta psize resample_o mutate_o). Qed.

  (* a fixed schedule of n steps performs exactly n iterations and ends at exactly 1 (exact arithmetic) *)
  Theorem C06_fixed_n_exact : forall o (n : nat) p0 g0 extra,
    adaptive NumR o = false -> (0 < n)%nat -> beta_step NumR o = 1 / INR n -> max_n_steps NumR o = None ->
    exists out evs, SAMPLE (n + extra) o p0 g0 = Ok (out, evs) /\ o_iter _ _ _ out = n
                    /\ last (h_beta _ _ (o_hist _ _ _ out)) 0 = 1.
  Proof. exact (sample_fixed_n P G effq essq ratio ratio_var cte pbeta psize resample_o mutate_o). Qed.

  (* one step: strictly forward, at most 1, and either exactly 1 or at least the progress quantum *)
  Theorem C06_step : forall o p beta ms b ms' tr,
    valid o -> 0 <= beta < 1 -> determine_beta NumR P effq cte o p beta ms = Ok (b, ms', tr) ->
    beta < b <= 1 /\ (b = 1 \/ beta + delta o <= b).
  Proof. exact (determine_beta_step P effq cte). Qed.

  (* the minimum step is honoured: the step taken is max(beta*, beta_prev + min_step) clamped to 1 *)
  Theorem C06_min_step_honoured : forall o p beta ms b ms' tr,
    valid o -> adaptive NumR o = true -> 0 <= beta < 1 -> cte beta <= effq p beta ->
    determine_beta NumR P effq cte o p beta ms = Ok (b, ms', tr) ->
    exists bs, b = pymin NumR (pymax NumR bs (beta + ms')) 1.
  Proof.
    intros o p beta ms b ms' tr Hv Ha Hb Hadm H.
    destruct (determine_beta_bracket P effq cte o p beta ms b ms' tr Hv Ha Hb Hadm H)
      as (a & bb & bs & _ & _ & _ & _ & _ & _ & _ & Hbeta).
    exists bs. exact Hbeta.
  Qed.
End Statements.

(* binary64: for every n <= 4096, every population, kernel and random stream, the fixed schedule of n
   steps of 1/n performs exactly n iterations *)
Theorem C06_fixed_n_f64 : forall (P G : Type) effq essq ratio ratio_var cte pbeta psize resample_o mutate_o
    (o : opts NumF) n p0 g0,
  (1 <= n <= fixed_bound)%nat ->
  adaptive _ o = false -> max_n_steps _ o = None -> beta_step _ o = f_step n ->
  exists out evs,
    sample NumF P G effq essq ratio ratio_var cte pbeta psize resample_o mutate_o (2 * n + 2) o p0 g0 = Ok (out, evs)
    /\ o_iter _ _ _ out = n.
Proof. exact sample_fixed_n_f64. Qed.

(* binary64, a positive tolerance BELOW the spacing of the floats (1e-17 < 2^-53): on a bracket of two adjacent floats the midpoint
   rounds onto an end; the loop then stops at once and returns the bracket (repair F58 — before it, the loop
   `while beta_max - beta_min > beta_tolerance` never exited there, whatever the fuel).  The termination theorem above is about
   exact arithmetic, where halving always shrinks the bracket. *)
Theorem C06_bisection_adjacent_floats_f64 : forall (P : Type) (effq : P -> PrimFloat.float -> PrimFloat.float) (p : P) target fuel trace,
  bisect NumF P effq (S fuel) p target b_lo b_hi tiny_tol trace = Some (b_lo, b_hi, trace).
Proof. exact bisect_stops_on_adjacent_floats. Qed.

Print Assumptions C06_schedule.
Print Assumptions C06_bisection_adjacent_floats_f64.
Print Assumptions C06_schedule_resumed.
Print Assumptions C06_terminates_no_error.
Print Assumptions C06_fixed_n_exact.
Print Assumptions C06_step.
Print Assumptions C06_min_step_honoured.
Print Assumptions C06_fixed_n_f64.

(* non-vacuity: a valid option record with adequate bisection fuel exists *)
Example C06_valid_satisfiable :
  let o := Build_opts NumR true 0 0 false None 1 None true false 1%Z 1%nat in
  valid o /\ fuel_ok o.
Proof.
  cbv zeta. unfold valid, fuel_ok. cbn. split; [split; [lra| split; [lia| discriminate]]|]. lra.
Qed.
