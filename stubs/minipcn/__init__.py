"""Stand-in for the `minipcn` package (not installable in this sandbox).

Interface used by aspire: Sampler(log_prob_fn, step_fn, rng, dims, target_acceptance_rate, xp=None)
and .sample(z0, n_steps) -> (chain[n_steps+1, N, d], history) with history.acceptance_rate.
The kernel is a plain random-walk Metropolis step that draws ONLY from the generator it is handed
(rng.integers, rng.normal, rng.uniform), so aspire's adapter code runs unmodified and runs are replayable.
"""
import numpy as np

__version__ = "0.0-verif-stub"


class _History:
    def __init__(self, acc):
        self.acceptance_rate = acc


def _to_np(a):
    try:
        import torch
        if isinstance(a, torch.Tensor):
            return a.detach().cpu().numpy().astype(float)
    except Exception:
        pass
    return np.asarray(a, dtype=float)


class Sampler:
    def __init__(self, log_prob_fn, step_fn="tpcn", rng=None, dims=None, target_acceptance_rate=0.234, xp=None, **kw):
        self.log_prob_fn = log_prob_fn
        self.step_fn = step_fn
        self.rng = rng if rng is not None else np.random.default_rng()
        self.dims = dims
        self.target_acceptance_rate = target_acceptance_rate
        self.xp = xp
        self.step_size = 0.5

    def _wrap(self, z, like):
        if self.xp is None:
            return z
        dt = getattr(like, "dtype", None)
        try:
            return self.xp.asarray(z, dtype=dt)
        except Exception:
            return self.xp.asarray(z)

    def sample(self, z0, n_steps=10, **kw):
        z = _to_np(z0)
        if z.ndim == 1:
            z = z[:, None]
        lp = _to_np(self.log_prob_fn(self._wrap(z, z0))).reshape(-1)
        chain = [z.copy()]
        acc = []
        for _ in range(int(n_steps)):
            # one small-integer draw per step (a random choice among three step scales): numpy serves it from a buffered 32-bit
            # half-word, so the generator's FULL state (not only its 128-bit counter) matters to whoever saves and restores it
            k = int(self.rng.integers(0, 3))
            prop = z + self.step_size * (0.5 + 0.5 * k) * np.asarray(self.rng.normal(size=z.shape), dtype=float)
            lpp = _to_np(self.log_prob_fn(self._wrap(prop, z0))).reshape(-1)
            u = np.asarray(self.rng.uniform(size=len(z)), dtype=float)
            with np.errstate(all="ignore"):
                accept = np.log(u) < (lpp - lp)
            accept &= np.isfinite(lpp)
            z = np.where(accept[:, None], prop, z)
            lp = np.where(accept, lpp, lp)
            acc.append(float(np.mean(accept)))
            chain.append(z.copy())
        chain = np.stack(chain, axis=0)
        if self.xp is not None:
            chain = self._wrap(chain, z0)
        return chain, _History(np.asarray(acc))
