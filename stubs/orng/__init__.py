"""Stand-in for `orng.ArrayRNG` (not installable here): a numpy Generator whatever the backend."""
import numpy as np

__version__ = "0.0-verif-stub"


class ArrayRNG(np.random.Generator):
    def __init__(self, backend="numpy", seed=None, **kw):
        super().__init__(np.random.PCG64(seed))
        self.backend = backend
