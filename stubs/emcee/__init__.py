"""Stand-in for `emcee` (not installable here): the EnsembleSampler interface aspire uses.
A random-walk Metropolis move per walker, driven by a private RandomState that is seeded
deterministically (module-level counter) so runs replay; the real emcee draws from an unseeded
RandomState, i.e. is not reproducible by construction (outside aspire)."""
import numpy as np

__version__ = "0.0-verif-stub"
_counter = [0]
CREATED = []          # every EnsembleSampler built since the last reset (the harness asks each whether the caller seeded it)


def reset_counter(v=0):
    _counter[0] = v
    del CREATED[:]


class EnsembleSampler:
    def __init__(self, nwalkers, ndim, log_prob_fn, args=None, kwargs=None, vectorize=False, moves=None, **kw):
        self.nwalkers, self.ndim = nwalkers, ndim
        self.log_prob_fn = log_prob_fn
        self.args = tuple(args or ())
        self.kwargs = dict(kwargs or {})
        self.vectorize = vectorize
        self.moves = moves
        _counter[0] += 1
        self._random = np.random.RandomState(1000 + _counter[0])
        # the real emcee seeds this state from the OS unless the caller sets `random_state` or passes `rstate0` to run_mcmc
        self.seeded_by_caller = False
        CREATED.append(self)
        self._chain = None
        self.acceptance_fraction = np.zeros(nwalkers)

    def _lp(self, z):
        if self.vectorize:
            return np.asarray(self.log_prob_fn(z, *self.args, **self.kwargs), dtype=float).reshape(-1)
        return np.array([float(self.log_prob_fn(r, *self.args, **self.kwargs)) for r in z])

    @property
    def random_state(self):
        return self._random.get_state()

    @random_state.setter
    def random_state(self, state):
        self._random.set_state(state)
        self.seeded_by_caller = True

    def run_mcmc(self, initial_state, nsteps, progress=False, rstate0=None, **kw):
        if rstate0 is not None:
            self.random_state = rstate0
        z = np.asarray(initial_state, dtype=float).copy()
        lp = self._lp(z)
        chain = []
        nacc = np.zeros(len(z))
        for _ in range(int(nsteps)):
            prop = z + 0.5 * self._random.normal(size=z.shape)
            lpp = self._lp(prop)
            u = self._random.uniform(size=len(z))
            with np.errstate(all="ignore"):
                acc = (np.log(u) < lpp - lp) & np.isfinite(lpp)
            z = np.where(acc[:, None], prop, z)
            lp = np.where(acc, lpp, lp)
            nacc += acc
            chain.append(z.copy())
        self._chain = np.stack(chain, axis=0) if chain else z[None]
        self.acceptance_fraction = nacc / max(1, int(nsteps))
        return z

    def get_chain(self, flat=False, discard=0, thin=1):
        c = self._chain[discard::thin]
        return c.reshape(-1, self.ndim) if flat else c

    def get_autocorr_time(self, quiet=False, discard=0, **kw):
        return np.ones(self.ndim)
