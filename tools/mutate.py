#!/usr/bin/env python3
"""Mutation generator for src/aspire (support tooling for measuring the checks, not part of any check).

  tools/mutate.py list <repo> [--per-file N] [--seed S]   -> JSON list of mutants on stdout

Every mutant is ONE textual edit located through the Python AST (so it always parses): comparison / arithmetic /
boolean operator swaps, constant changes, negated conditions, dropped `not` / unary minus, a simple statement
replaced by `pass`, `+=` <-> `-=`, min <-> max, deepcopy -> copy.  Logging, docstrings, type hints, raise
statements and __repr__/plot code are left alone.
"""
import ast
import json
import random
import re
import sys
from pathlib import Path

FILES = {
    "samplers/smc/base.py": ["C06", "C11", "C07", "C08", "C12", "C18", "C17", "C10", "C05"],
    "samples.py": ["C16", "C02", "C09", "C15", "C10", "C13", "C08", "C07", "C11"],
    "utils.py": ["C13", "C02", "C15", "C07", "C12", "C14", "C16", "C04", "C19"],
    "transforms.py": ["C04", "C05", "C13", "C03"],
    "history.py": ["C13", "C18", "C11"],
    "samplers/base.py": ["C12", "C11", "C17", "C05", "C10", "C20", "C14"],
    "aspire.py": ["C14", "C13", "C19", "C17", "C20", "C10", "C12", "C11"],
    "samplers/importance.py": ["C10", "C17", "C01", "C20"],
    "samplers/mcmc.py": ["C05", "C17", "C20", "C10"],
    "samplers/smc/minipcn.py": ["C05", "C17", "C20", "C10", "C11"],
    "samplers/smc/emcee.py": ["C05", "C17", "C20", "C10"],
    "flows/torch/flows.py": ["C03", "C13", "C20"],
    "flows/jax/flows.py": ["C03", "C13", "C20"],
}
SKIP_FUNCS = {"__repr__", "__str__", "plot", "plot_corner", "plot_history", "to_dataframe", "configure_logger", "__post_init_post_parse__"}
CMP = {ast.Lt: ("<", "<="), ast.LtE: ("<=", "<"), ast.Gt: (">", ">="), ast.GtE: (">=", ">"), ast.Eq: ("==", "!="), ast.NotEq: ("!=", "=="),
       ast.Is: ("is", "is not"), ast.IsNot: ("is not", "is")}
BIN = {ast.Add: ("+", "-"), ast.Sub: ("-", "+"), ast.Mult: ("*", "/"), ast.Div: ("/", "*")}


class Gen(ast.NodeVisitor):
    def __init__(self, src, rel):
        self.src = src
        self.lines = src.split("\n")
        self.rel = rel
        self.out = []
        self.func = []

    def seg(self, node):
        return ast.get_source_segment(self.src, node)

    def add(self, kind, line, c0, c1, new, node=None):
        old = self.lines[line - 1][c0:c1]
        if old == new:
            return
        self.out.append({"file": self.rel, "func": ".".join(self.func) or "<module>", "kind": kind, "line": line, "c0": c0, "c1": c1, "old": old, "new": new,
                         "text": self.lines[line - 1].strip()[:140]})

    def between(self, a, b, table_old, table_new, kind):
        """replace the operator token between node a and node b (same line only)"""
        if a.end_lineno != b.lineno:
            return
        line = a.end_lineno
        c0, c1 = a.end_col_offset, b.col_offset
        txt = self.lines[line - 1][c0:c1]
        m = re.search(r"(?<![<>=!*/+\-])" + re.escape(table_old) + r"(?![<>=*/])", txt) if not table_old[0].isalpha() else re.search(r"\b" + table_old.replace(" ", r"\s+") + r"\b", txt)
        if not m:
            return
        self.add(kind, line, c0 + m.start(), c0 + m.end(), table_new)

    def visit_FunctionDef(self, node):
        if node.name in SKIP_FUNCS:
            return
        self.func.append(node.name)
        for st in node.body:
            self.visit(st)
        self.func.pop()
    visit_AsyncFunctionDef = visit_FunctionDef

    def visit_ClassDef(self, node):
        self.func.append(node.name)
        for st in node.body:
            self.visit(st)
        self.func.pop()

    def is_log(self, node):
        s = self.seg(node) or ""
        return s.startswith(("logger.", "logging.", "warnings.", "print(", "tqdm", "pbar.")) or "logger." in s[:40]

    def visit_Expr(self, node):
        if isinstance(node.value, ast.Constant):
            return          # docstring
        if self.is_log(node):
            return
        if isinstance(node.value, ast.Call) and node.lineno == node.end_lineno and self.func:
            self.add("drop-call", node.lineno, node.col_offset, node.end_col_offset, "pass")
        self.generic_visit(node)

    def visit_Raise(self, node):
        return

    def visit_Assert(self, node):
        return

    def visit_AnnAssign(self, node):
        if node.value is not None:
            self.visit(node.value)

    def visit_Assign(self, node):
        if self.func and node.lineno == node.end_lineno and not (isinstance(node.value, ast.Constant) and node.value.value is None):
            t = node.targets[0]
            if isinstance(t, (ast.Attribute, ast.Subscript)):
                self.add("drop-assign", node.lineno, node.col_offset, node.end_col_offset, "pass")
        self.visit(node.value)

    def visit_AugAssign(self, node):
        if isinstance(node.op, (ast.Add, ast.Sub)) and node.target.end_lineno == node.value.lineno:
            old, new = ("+=", "-=") if isinstance(node.op, ast.Add) else ("-=", "+=")
            line = node.lineno
            c0, c1 = node.target.end_col_offset, node.value.col_offset
            txt = self.lines[line - 1][c0:c1]
            i = txt.find(old)
            if i >= 0:
                self.add("augassign", line, c0 + i, c0 + i + 2, new)
        if self.func and node.lineno == node.end_lineno:
            self.add("drop-augassign", node.lineno, node.col_offset, node.end_col_offset, "pass")
        self.visit(node.value)

    def visit_If(self, node):
        t = node.test
        if t.lineno == t.end_lineno and not self.is_log(t):
            seg = self.lines[t.lineno - 1][t.col_offset:t.end_col_offset]
            if "TYPE_CHECKING" not in seg and "__name__" not in seg:
                self.add("negate-if", t.lineno, t.col_offset, t.end_col_offset, f"not ({seg})")
        self.generic_visit(node)

    def visit_While(self, node):
        self.generic_visit(node)

    def visit_Compare(self, node):
        if len(node.ops) == 1 and type(node.ops[0]) in CMP:
            old, new = CMP[type(node.ops[0])]
            self.between(node.left, node.comparators[0], old, new, "cmp")
        self.generic_visit(node)

    def visit_BinOp(self, node):
        if type(node.op) in BIN:
            # leave string building alone
            if not any(isinstance(x, (ast.JoinedStr,)) or (isinstance(x, ast.Constant) and isinstance(x.value, str)) for x in (node.left, node.right)):
                old, new = BIN[type(node.op)]
                self.between(node.left, node.right, old, new, "arith")
        self.generic_visit(node)

    def visit_BoolOp(self, node):
        old, new = ("and", "or") if isinstance(node.op, ast.And) else ("or", "and")
        self.between(node.values[0], node.values[1], old, new, "bool")
        self.generic_visit(node)

    def visit_UnaryOp(self, node):
        if node.lineno == node.operand.lineno:
            if isinstance(node.op, ast.Not):
                self.add("drop-not", node.lineno, node.col_offset, node.operand.col_offset, "")
            elif isinstance(node.op, ast.USub) and not isinstance(node.operand, ast.Constant):
                self.add("drop-neg", node.lineno, node.col_offset, node.operand.col_offset, "")
        self.generic_visit(node)

    def visit_Constant(self, node):
        v = node.value
        if node.lineno != node.end_lineno:
            return
        if isinstance(v, bool):
            self.add("const", node.lineno, node.col_offset, node.end_col_offset, str(not v))
        elif isinstance(v, int):
            self.add("const", node.lineno, node.col_offset, node.end_col_offset, "1" if v == 0 else ("0" if v == 1 else str(v + 1)))
        elif isinstance(v, float):
            self.add("const", node.lineno, node.col_offset, node.end_col_offset, "1.0" if v == 0 else repr(v * 2 if v != 1.0 else 0.5))

    def visit_Call(self, node):
        f = node.func
        if isinstance(f, ast.Name) and f.id in ("min", "max") and len(node.args) >= 2:
            self.add("minmax", f.lineno, f.col_offset, f.end_col_offset, "max" if f.id == "min" else "min")
        if isinstance(f, ast.Attribute) and f.attr == "deepcopy":
            self.add("deepcopy", f.lineno, f.end_col_offset - len("deepcopy"), f.end_col_offset, "copy")
        if isinstance(f, ast.Name) and f.id == "deepcopy":
            self.add("deepcopy", f.lineno, f.col_offset, f.end_col_offset, "(lambda o: __import__('copy').copy(o))")
        if self.is_log(node):
            return
        # keyword arguments dropped one at a time (dtype=..., device=..., xp=... are the interesting ones)
        for kw in node.keywords:
            if kw.arg in ("dtype", "device", "xp", "rng", "beta", "axis") and kw.value.lineno == kw.value.end_lineno and isinstance(kw.value, (ast.Name, ast.Attribute)):
                line = kw.value.lineno
                seg = self.lines[line - 1]
                start = seg.rfind(kw.arg, 0, kw.value.col_offset)
                if start >= 0 and seg[start:kw.value.col_offset].replace(" ", "") == kw.arg + "=":
                    self.add("kw-none", line, kw.value.col_offset, kw.value.end_col_offset, "None")
        self.generic_visit(node)


def mutants_of(repo, rel):
    src = (Path(repo) / "src" / "aspire" / rel).read_text()
    g = Gen(src, rel)
    g.visit(ast.parse(src))
    good = []
    for m in g.out:
        lines = src.split("\n")
        ln = lines[m["line"] - 1]
        lines[m["line"] - 1] = ln[:m["c0"]] + m["new"] + ln[m["c1"]:]
        try:
            ast.parse("\n".join(lines))
        except SyntaxError:
            continue
        good.append(m)
    return good


def main():
    repo = sys.argv[2]
    per = int(sys.argv[sys.argv.index("--per-file") + 1]) if "--per-file" in sys.argv else 10 ** 9
    seed = int(sys.argv[sys.argv.index("--seed") + 1]) if "--seed" in sys.argv else 0
    rng = random.Random(seed)
    out = []
    for rel, props in FILES.items():
        ms = mutants_of(repo, rel)
        rng.shuffle(ms)
        for m in ms[:per]:
            m["props"] = props
            out.append(m)
    for i, m in enumerate(out):
        m["id"] = i
    json.dump(out, sys.stdout, indent=0)


if __name__ == "__main__":
    main()
