#!/bin/bash
# tools/mutant_test.sh <patch.diff> <prop> [<prop> ...]
# Tries a seeded change without touching /repo or /verif: a scratch worktree of /repo's HEAD gets the patch,
# a scratch copy of /verif (with its build output) runs the named checks against it, and both are removed.
# <patch.diff> may be the word none (unchanged tree, e.g. to try an edited check while /verif is busy).
# Prints one line per check:  <prop> rc=<exit> violations=<n> known=<n> :: first VIOLATION line
# VERIF_SEED / VERIF_TIER are passed through.  -R as first argument applies the patch in reverse.
set -u
rev=""
if [ "$1" = "-R" ]; then rev="-R"; shift; fi
if [ "$1" = "none" ]; then patch=""; tag=clean-$$; else patch=$(readlink -f "$1"); tag=$(basename "$(dirname "$patch")")-$$; fi; shift
wt=/tmp/mt-repo-$tag; vf=/tmp/mt-verif-$tag
git -C /repo worktree add --detach "$wt" HEAD >/dev/null 2>&1 || { echo "worktree failed"; exit 2; }
# seeded patches were written against the /repo HEAD of their time; later repair commits may have moved the context: fall back to a 3-way apply
if [ -n "$patch" ] && ! git -C "$wt" apply $rev "$patch" 2>/dev/null && ! git -C "$wt" apply -3 $rev "$patch" >/dev/null 2>&1; then echo "patch does not apply"; git -C /repo worktree remove --force "$wt"; exit 2; fi
rsync -a --exclude .git --exclude replays --exclude .work/cases /verif/ "$vf"/
mkdir -p "$vf/replays" "$vf/.work/cases"
for p in "$@"; do
  out=$(cd "$vf" && ASPIRE_REPO="$wt" timeout 3600 ./check "$p" --tier "${VERIF_TIER:-quick}" 2>/dev/null); rc=$?
  echo "$p rc=$rc violations=$(echo "$out" | grep -c '^VIOLATION') known=$(echo "$out" | grep -c '^KNOWN-FINDING') :: $(echo "$out" | grep '^VIOLATION' | head -1)"
  if [ -n "${MT_KEEP:-}" ]; then mkdir -p "$MT_KEEP"; echo "$out" > "$MT_KEEP/$p.out"; cp -r "$vf/replays" "$MT_KEEP/replays-$p" 2>/dev/null; fi
done
git -C /repo worktree remove --force "$wt"
rm -rf "$vf"
