#!/usr/bin/env python3
"""Runs the registered checks against generated mutants of src/aspire on scratch copies (support tooling: measures the checks).

  tools/mutation_run.py <mutants.json> <results.jsonl> [--workers N] [--limit K] [--tests]

Each worker owns a scratch worktree of /repo's HEAD and a scratch copy of /verif (both under /tmp, removed at the end).
For every mutant: apply the one-line edit, make sure the package still imports, run the checks mapped to that file one
after the other until one exits non-zero (= mutant detected; recorded with the kind of report), else it survives.
With --tests the 279 baseline tests (tools/baseline_ids.txt) are run on survivors to see whether the tests would notice.
"""
import json
import multiprocessing as mp
import os
import subprocess
import sys
import time
from pathlib import Path

ENV = dict(os.environ, PYTHONHASHSEED="0", JAX_PLATFORMS="cpu", OMP_NUM_THREADS="2")


def sh(cmd, timeout=900, **kw):
    try:
        p = subprocess.run(cmd, shell=True, capture_output=True, text=True, timeout=timeout, env=ENV, **kw)
        return p.returncode, p.stdout + p.stderr
    except subprocess.TimeoutExpired as e:
        return 124, (e.stdout or b"").decode(errors="replace") if isinstance(e.stdout, bytes) else str(e.stdout)


def worker(args):
    wid, todo, resfile, tests = args
    wt, vf = f"/tmp/mu-repo-{wid}", f"/tmp/mu-verif-{wid}"
    sh(f"git -C /repo worktree remove --force {wt}; rm -rf {wt} {vf}")
    rc, out = sh(f"git -C /repo worktree add --detach {wt} HEAD && rsync -a --exclude .git --exclude replays /verif/ {vf}/ && mkdir -p {vf}/replays")
    if rc:
        print("worker setup failed", out, flush=True)
        return
    for m in todo:
        t0 = time.time()
        sh(f"git -C {wt} checkout -- . && rm -rf {vf}/replays/*")
        p = Path(wt) / "src" / "aspire" / m["file"]
        lines = p.read_text().split("\n")
        ln = lines[m["line"] - 1]
        if ln[m["c0"]:m["c1"]] != m["old"]:
            res = dict(m, outcome="stale")
        else:
            lines[m["line"] - 1] = ln[:m["c0"]] + m["new"] + ln[m["c1"]:]
            p.write_text("\n".join(lines))
            rc, out = sh(f"PYTHONPATH={wt}/src /venv/bin/python -W ignore -c 'import aspire, aspire.samplers.smc.base, aspire.samplers.importance, aspire.flows.torch.flows, aspire.transforms, aspire.history'", timeout=120)
            if rc:
                res = dict(m, outcome="import-fails")
            else:
                res = dict(m, outcome="survived", ran=[])
                for prop in m["props"]:
                    rc, out = sh(f"cd {vf} && ASPIRE_REPO={wt} ./check {prop}", timeout=900)
                    res["ran"].append(prop)
                    if rc != 0:
                        vl = [l for l in out.split("\n") if l.startswith("VIOLATION")]
                        res.update(outcome="killed", by=prop, rc=rc, how=("timeout" if rc == 124 else "no-failing-input-found" if vl and all("no-failing-input-found" in l for l in vl)
                                                                      else "concrete" if vl else "crash"), first=(vl[0][:200] if vl else out[-300:]))
                        break
                if res["outcome"] == "survived" and tests:
                    rc, out = sh(f"cd {wt} && PYTHONPATH={wt}/src /venv/bin/python -m pytest -q -x --no-cov -p no:cacheprovider --timeout=600 $(tr '\\n' ' ' < /verif/tools/baseline_ids.txt) 2>&1 | tail -3",
                                 timeout=1800)
                    res["tests"] = "pass" if " passed" in out and "failed" not in out and "error" not in out.lower() else "fail"
                    res["tests_tail"] = out[-300:]
        res["secs"] = round(time.time() - t0, 1)
        with open(resfile, "a") as f:
            f.write(json.dumps(res) + "\n")
        print(wid, m["id"], m["file"], m["kind"], m["line"], res["outcome"], res.get("by", ""), res.get("how", ""), res["secs"], flush=True)
    sh(f"git -C /repo worktree remove --force {wt}; rm -rf {wt} {vf}")


def main():
    ms = json.load(open(sys.argv[1]))
    resfile = sys.argv[2]
    nw = int(sys.argv[sys.argv.index("--workers") + 1]) if "--workers" in sys.argv else 8
    if "--limit" in sys.argv:
        ms = ms[: int(sys.argv[sys.argv.index("--limit") + 1])]
    done = set()
    if os.path.exists(resfile):
        done = {json.loads(l)["id"] for l in open(resfile)}
    ms = [m for m in ms if m["id"] not in done]
    chunks = [ms[i::nw] for i in range(nw)]
    with mp.Pool(nw) as pool:
        pool.map(worker, [(i, c, resfile, "--tests" in sys.argv) for i, c in enumerate(chunks)])


if __name__ == "__main__":
    main()
