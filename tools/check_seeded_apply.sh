#!/bin/bash
# tools/check_seeded_apply.sh — does every seeded/*/patch.diff still apply to /repo's HEAD?  (a real apply in a scratch worktree;
# `git apply -3 --check` reports success for patches whose 3-way merge then conflicts)
wt=/tmp/wt-apply-$$
git -C /repo worktree add --detach "$wt" HEAD -q || exit 2
bad=0
for d in "$(dirname "$0")"/../seeded/*/; do
  p=$(readlink -f "$d/patch.diff"); [ -f "$p" ] || continue
  git -C "$wt" checkout -q -- . ; git -C "$wt" clean -fdq
  if git -C "$wt" apply "$p" 2>/dev/null; then :
  elif git -C "$wt" apply -3 "$p" >/dev/null 2>&1 && ! git -C "$wt" diff --name-only --diff-filter=U | grep -q .; then echo "3way $(basename "$d")"; git -C "$wt" reset -q --hard
  else echo "FAILS $(basename "$d")"; bad=$((bad+1)); git -C "$wt" reset -q --hard; fi
done
git -C /repo worktree remove --force "$wt"
echo "not applying: $bad"
