#!/bin/bash
# run every registered quick (or $2=thorough) check once with VERIF_SEED=$1; print one line per check
cd /verif
seed=${1:-0}; tier=${2:-quick}
for p in $(python3 -c "import json;print(' '.join(c['property_id'] for c in json.load(open('MANIFEST.json'))['checks']))"); do
  start=$(date +%s)
  out=$(VERIF_SEED=$seed timeout 3600 ./check $p --tier $tier 2>/dev/null); rc=$?
  echo "$p rc=$rc $(( $(date +%s) - start ))s :: $(echo "$out" | grep -E "^\[$p\]" | tail -1) :: $(echo "$out" | grep -c '^VIOLATION') violations, $(echo "$out" | grep -c '^KNOWN-FINDING') known"
  echo "$out" | grep '^VIOLATION' | head -3
done
