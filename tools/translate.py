"""Fail-closed translator: straight-line numeric Python (aspire kernels) -> IR -> Gallina.

The same IR is (a) printed as Coq definitions (coq/Gen/*.v) that the theorems are about and
(b) evaluated numerically with mpmath (``evaluate``) so the translation itself is differentially
tested against the running implementation on every check.

A target is one function/method of /repo/src/aspire plus a *binding spec* saying what each free
name stands for (a real vector, a real scalar, an abstract user function, ...).  The body is
symbolically executed statement by statement; every assignment becomes a `let`.  Anything outside
the accepted subset raises Untranslatable (fail closed) and the target is reported as failed.

Per-row convention for transforms: a 2-D batch (N,d) is modelled by ONE row (a list over the d
coordinates); `.sum(-1)` is the sum over coordinates, `xp.ones(y.shape[0])`/`zeros(len(x))` is the
per-row scalar 1 / 0.
"""
from __future__ import annotations

import ast
import json
import textwrap
from fractions import Fraction
from pathlib import Path


class Untranslatable(Exception):
    def __init__(self, msg, node=None):
        ln = getattr(node, "lineno", "?")
        src = ""
        try:
            src = ast.unparse(node)[:120] if node is not None else ""
        except Exception:
            pass
        super().__init__(f"{msg} (line {ln}: {src})")


# ----------------------------------------------------------------------------- IR

class N:
    """IR node. shape: 'S' real scalar, 'V' real vector, 'B' bool scalar, 'BV' bool vector,
    'X' abstract point (coordinates), 'XV' vector of abstract points."""
    __slots__ = ("op", "args", "shape", "extra")

    def __init__(self, op, args=(), shape="S", extra=None):
        self.op, self.args, self.shape, self.extra = op, tuple(args), shape, extra

    def to_json(self):
        return {"op": self.op, "shape": self.shape, "extra": _jx(self.extra), "args": [a.to_json() for a in self.args]}


def _jx(x):
    if isinstance(x, Fraction):
        return f"{x.numerator}/{x.denominator}"
    if isinstance(x, (list, tuple)):
        return [_jx(i) for i in x]
    return x


def var(name, shape="S"):
    return N("var", (), shape, name)


def num(v):
    if isinstance(v, bool):
        raise Untranslatable("bool literal as number")
    if isinstance(v, int):
        return N("num", (), "S", Fraction(v))
    if isinstance(v, float):
        if v != v or v in (float("inf"), float("-inf")):
            raise Untranslatable("non-finite literal")
        return N("num", (), "S", Fraction(v))   # exact binary value of the literal
    raise Untranslatable(f"literal {v!r}")


def is_vec(n):
    return n.shape in ("V", "BV")


def elem_shape(a, b=None):
    return "V" if (is_vec(a) or (b is not None and is_vec(b))) else "S"


# ----------------------------------------------------------------------------- symbolic values

class Obj:
    def __init__(self, cls, attrs=None):
        self.cls, self.attrs = cls, dict(attrs or {})


class Tup:
    def __init__(self, items):
        self.items = list(items)


class NoneV:
    pass


class ModV:          # array namespace / math module / anything whose attributes are numeric functions
    def __init__(self, name):
        self.name = name


class Abs:           # abstract function (user callable, flow density, erf, ...)
    def __init__(self, name, arg="x", shape=None, event=None):
        self.name, self.arg, self.shape, self.event = name, arg, shape, event


class Opaque:        # a value we carry but never compute with (dtype, device, parameters, rng ...)
    def __init__(self, what=""):
        self.what = what


IDENTITY_FUNCS = {"asarray", "to_numpy", "copy_array", "safe_to_device"}
HELPERS = {"update_at_indices", "get_device", "array_namespace", "is_torch_namespace"}
UNARY = {"exp": "exp", "log": "ln", "log1p": "log1p", "sqrt": "sqrt", "abs": "abs"}


class Exec:
    """Symbolic executor for one target."""

    def __init__(self, tr, module, cls, fname, env, overrides=None, self_obj=None):
        self.tr, self.module, self.cls, self.fname = tr, module, cls, fname
        self.env = dict(env)
        self.lets = []           # ordered (name, N)
        self.overrides = overrides or {}
        self.events = []         # abstract calls in program order: (fname, arg summary)
        self.counter = 0
        self.returned = None
        self.flags = {}
        self.guards = []
        self.assumed = []
        self.names = {}
        if self_obj is not None:
            self.env["self"] = self_obj

    # -- let binding
    def bind(self, name, val):
        """Every assignment becomes a let with a UNIQUE name (SSA), so a rebinding can never capture a
        later use of the old value (e.g. `y, lj = f(y)`)."""
        if isinstance(val, N):
            base = name.replace(".", "_")
            k = self.names.get(base, 0)
            self.names[base] = k + 1
            nm = base if k == 0 else f"{base}_{k}"
            self.lets.append((nm, val))
            return var(nm, val.shape)
        return val

    # -- statements
    def run(self, stmts):
        for i, st in enumerate(stmts):
            if self.returned is not None:
                return               # a (statically decided) early return: the rest of the block is not executed
            if (isinstance(st, ast.If) and not st.orelse and len(st.body) == 1 and isinstance(st.body[0], ast.Return)
                    and st.body[0].value is not None and ast.unparse(st.test) not in self.flags.get("assume", {})
                    and not self.flags.get("ignore_return")):
                if self.early_return(st, stmts[i + 1:]):
                    return
                continue
            self.stmt(st)

    def early_return(self, st, rest):
        """`if T: return A` followed by the rest of the block (which returns B) is the value `A if T else B`.
        Returns True when the rest of the block has been consumed."""
        c = self.expr(st.test)
        if isinstance(c, bool):
            if c:
                self.stmt(st.body[0])
            return False
        c = self.truth(c, st)
        a = self.expr(st.body[0].value)
        n_ev = len(self.events)
        self.run(rest)
        b = self.returned
        if len(self.events) != n_ev:
            raise Untranslatable("abstract call after a data-dependent early return", st)
        if not isinstance(a, N) or not isinstance(b, N) or a.shape != b.shape:
            raise Untranslatable("data-dependent early return with incompatible results", st)
        self.returned = N("ite", (c, a, b), a.shape)
        return True

    def stmt(self, st):
        if isinstance(st, ast.Expr):
            if isinstance(st.value, ast.Constant) and isinstance(st.value.value, str):
                return  # docstring
            if isinstance(st.value, ast.Call):
                f = ast.unparse(st.value.func)
                if f.startswith("logger.") or f.startswith("logging."):
                    return
                self.expr(st.value)
                return
            raise Untranslatable("expression statement", st)
        if isinstance(st, ast.Assign):
            if len(st.targets) != 1:
                raise Untranslatable("multi-target assign", st)
            self.assign(st.targets[0], self.expr(st.value), st)
            return
        if isinstance(st, ast.AugAssign):
            cur = self.expr(st.target)
            val = self.binop(st.op, cur, self.expr(st.value), st)
            self.assign(st.target, val, st)
            return
        if isinstance(st, ast.Return):
            if self.flags.get("ignore_return"):
                self.returned = Opaque("ignored return")
                return
            self.returned = self.expr(st.value) if st.value is not None else NoneV()
            return
        if isinstance(st, ast.If):
            self.if_stmt(st)
            return
        if isinstance(st, (ast.Import, ast.ImportFrom)):
            for a in st.names:
                nm = a.asname or a.name.split(".")[0]
                if a.name in ("erf", "erfinv"):
                    self.env[nm] = Abs(a.name, shape="elem")
                elif nm in ("np", "numpy"):
                    self.env[nm] = ModV("np")
                else:
                    self.env[nm] = Opaque("import " + a.name)
            return
        if isinstance(st, ast.Pass):
            return
        if isinstance(st, ast.With):
            self.run(st.body)          # context managers on the translated paths (torch.no_grad) do not change values
            return
        if isinstance(st, ast.Raise):
            raise Untranslatable("raise on the translated path", st)
        raise Untranslatable(f"statement {type(st).__name__}", st)

    def assign(self, tgt, val, node):
        if isinstance(tgt, ast.Name):
            self.env[tgt.id] = self.bind(tgt.id, val)
        elif isinstance(tgt, ast.Attribute):
            o = self.expr(tgt.value)
            if not isinstance(o, Obj):
                raise Untranslatable("attribute assignment on non-object", node)
            nm = (ast.unparse(tgt.value) + "_" + tgt.attr).replace(".", "_")
            o.attrs[tgt.attr] = self.bind(nm, val)
        elif isinstance(tgt, ast.Tuple):
            if not isinstance(val, Tup) or len(val.items) != len(tgt.elts):
                raise Untranslatable("tuple assignment arity", node)
            for t, v in zip(tgt.elts, val.items):
                self.assign(t, v, node)
        else:
            raise Untranslatable("assignment target", node)

    def if_stmt(self, st):
        tsrc = ast.unparse(st.test)
        if tsrc in self.flags.get("assume", {}):
            c = self.flags["assume"][tsrc]
            self.assumed.append((tsrc, c))
            self.run(st.body if c else st.orelse)
            return
        if len(st.body) == 1 and isinstance(st.body[0], ast.Raise) and not st.orelse:
            c = self.expr(st.test)
            if c is True:
                raise Untranslatable("unconditional raise", st)
            if c is not False:
                self.guards.append(tsrc)       # raising guard: the translated path assumes it does not fire
            return
        c = self.expr(st.test)
        # statically decided tests (None checks, opaque flags given by the spec)
        if isinstance(c, bool):
            self.run(st.body if c else st.orelse)
            return
        c = self.truth(c, st)
        # dynamic scalar test: only simple Name assignments may differ between the branches
        def branch(stmts):
            sub = Exec(self.tr, self.module, self.cls, self.fname, self.env, self.overrides)
            sub.lets = []
            sub.names = self.names
            for s in stmts:
                if not (isinstance(s, ast.Assign) and len(s.targets) == 1 and isinstance(s.targets[0], ast.Name)):
                    raise Untranslatable("only plain assignments allowed under a data-dependent if", s)
                v = sub.expr(s.value)
                if not isinstance(v, N):
                    raise Untranslatable("non-numeric assignment under if", s)
                # inline: no lets inside branches
                sub.env[s.targets[0].id] = v
            return {s.targets[0].id: sub.env[s.targets[0].id] for s in stmts}, sub.events
        tb, ev1 = branch(st.body)
        eb, ev2 = branch(st.orelse)
        if ev1 or ev2:
            raise Untranslatable("abstract call under a data-dependent if", st)
        for name in sorted(set(tb) | set(eb)):
            old = self.env.get(name)
            a = tb.get(name, old)
            b = eb.get(name, old)
            if not isinstance(a, N) or not isinstance(b, N):
                raise Untranslatable(f"variable {name} undefined on one path of if", st)
            if a.shape != b.shape:
                raise Untranslatable("shape mismatch across if", st)
            self.env[name] = self.bind(name, N("ite", (c, a, b), a.shape))

    def truth(self, c, node):
        if isinstance(c, N):
            if c.shape == "B":
                return c
            if c.shape == "S":   # python truthiness of a float: != 0
                return N("cmp", (c, num(0)), "B", "ne")
        raise Untranslatable("unsupported if-test", node)

    # -- expressions
    def expr(self, e):
        if not isinstance(e, (ast.Constant, ast.Name)):
            src0 = ast.unparse(e)
            if src0 in self.overrides and not isinstance(e, ast.Call):
                return self.overrides[src0]
        if isinstance(e, ast.Constant):
            if e.value is None:
                return NoneV()
            if isinstance(e.value, bool):
                return e.value
            if isinstance(e.value, (int, float)):
                return num(e.value)
            if isinstance(e.value, str):
                return Opaque(e.value)
            raise Untranslatable("constant", e)
        if isinstance(e, ast.Name):
            if e.id in self.env:
                return self.env[e.id]
            if e.id in IDENTITY_FUNCS or e.id in self.tr.gen_funcs or e.id in HELPERS:
                return ("modfunc", e.id)
            if e.id in self.tr.module_funcs(self.module):
                return ("modfunc", e.id)
            if self.tr.class_node(self.module, e.id) is not None:
                return ("class", e.id)
            mc = self.tr.module_consts(self.module)
            if e.id in mc:       # a module-level constant (assigned exactly once at top level): evaluated where it is used
                sub = Exec(self.tr, self.module, None, "<module>", {}, {})
                v = sub.expr(mc[e.id])
                if not (isinstance(v, N) and v.shape == "S"):
                    raise Untranslatable(f"module-level name {e.id} is not a numeric constant", e)
                return v
            if e.id in ("len", "float", "any", "super", "int", "isinstance"):
                return ("builtin", e.id)
            if e.id in ("math", "np", "numpy", "torch", "jnp", "jax", "jrandom", "torch_api"):
                return ModV(e.id)
            raise Untranslatable(f"unknown name {e.id}", e)
        if isinstance(e, ast.Attribute):
            return self.attribute(e)
        if isinstance(e, ast.BinOp):
            return self.binop(e.op, self.expr(e.left), self.expr(e.right), e)
        if isinstance(e, ast.UnaryOp):
            v = self.expr(e.operand)
            if isinstance(e.op, ast.USub):
                if isinstance(v, N) and v.op == "num":
                    return N("num", (), "S", -v.extra)
                return N("un", (self.num_of(v, e),), self.num_of(v, e).shape, "neg")
            if isinstance(e.op, ast.Not):
                if isinstance(v, bool):
                    return not v
                if isinstance(v, N) and v.shape in ("B", "BV"):
                    return N("not", (v,), v.shape)
            raise Untranslatable("unary op", e)
        if isinstance(e, ast.Compare):
            return self.compare(e)
        if isinstance(e, ast.BoolOp):
            vals = [self.expr(v) for v in e.values]
            if all(isinstance(v, bool) for v in vals):
                return all(vals) if isinstance(e.op, ast.And) else any(vals)
            statics = [v for v in vals if isinstance(v, bool)]
            dyn = [v for v in vals if not isinstance(v, bool)]
            if isinstance(e.op, ast.And):
                if not all(statics):
                    return False
            else:
                if any(statics):
                    return True
            if len(dyn) == 1:
                return dyn[0]
            raise Untranslatable("boolean operator on data", e)
        if isinstance(e, ast.IfExp):
            c = self.expr(e.test)
            if isinstance(c, bool):
                return self.expr(e.body if c else e.orelse)
            c = self.truth(c, e)
            a, b = self.num_of(self.expr(e.body), e), self.num_of(self.expr(e.orelse), e)
            return N("ite", (c, a, b), a.shape)
        if isinstance(e, ast.Tuple):
            return Tup([self.expr(x) for x in e.elts])
        if isinstance(e, ast.Call):
            return self.call(e)
        if isinstance(e, ast.Subscript):
            v = self.expr(e.value)
            if isinstance(v, Tup) and isinstance(e.slice, ast.Constant):
                return v.items[e.slice.value]
            if isinstance(v, Obj) and v.cls == "__shape__":
                return Opaque("shape-index")
            if isinstance(v, N) and (is_vec(v) or v.shape == "XV"):
                ix = self.expr(e.slice)
                if isinstance(ix, N) and ix.shape == "I":
                    return N("select", (v, ix), v.shape)
            raise Untranslatable("subscript", e)
        raise Untranslatable(f"expression {type(e).__name__}", e)

    def num_of(self, v, node):
        if isinstance(v, N):
            return v
        raise Untranslatable("expected a numeric value, got %s" % type(v).__name__, node)

    def attribute(self, e):
        src = ast.unparse(e)
        if src in self.overrides:
            return self.overrides[src]
        base = self.expr(e.value)
        if isinstance(base, Obj):
            if base.cls == "__shape__":
                return Opaque("shape")
            if e.attr == "xp":
                return ModV("xp")
            if e.attr == "__class__":
                return ("class", base.cls)
            if e.attr in base.attrs:
                return base.attrs[e.attr]
            if e.attr == "shape":
                return Obj("__shape__")
            # method?
            m = self.tr.find_method(self.module, base.cls, e.attr)
            if m is not None:
                decos = [ast.unparse(d) for d in m[1].decorator_list]
                if any("cache" in d for d in decos):
                    # a memoised value depends on the object's history, which this pure translation does not carry: fail closed
                    raise Untranslatable(f"{base.cls}.{e.attr} is memoised ({', '.join(decos)})", e)
                if "property" in decos:      # a plain property is a parameterless method evaluated at the access
                    fake = ast.copy_location(ast.Call(func=e, args=[], keywords=[]), e)
                    return self.run_method(base, base.cls, e.attr, fake)
                return ("method", base, e.attr)
            raise Untranslatable(f"unknown attribute {e.attr} on {base.cls}", e)
        if isinstance(base, ModV):
            if base.name == "math" and e.attr == "pi":
                return N("pi", (), "S")
            if e.attr in ("inf",):
                return N("inf", (), "S")
            if e.attr in ("nan",):
                return N("nan", (), "S")
            return ("numfunc", e.attr)
        if isinstance(base, N):
            if e.attr == "shape":
                return Obj("__shape__")
            if e.attr == "T":
                return base
            return ("arrmethod", base, e.attr)
        if isinstance(base, tuple) and base[0] == "numfunc":
            return ("numfunc", base[1] + "." + e.attr)
        if isinstance(base, Opaque):
            return Opaque(base.what + "." + e.attr)
        raise Untranslatable(f"attribute {e.attr}", e)

    def binop(self, op, a, b, node):
        a, b = self.num_of(a, node), self.num_of(b, node)
        sh = elem_shape(a, b)
        if isinstance(op, ast.Add):
            return N("bin", (a, b), sh, "add")
        if isinstance(op, ast.Sub):
            return N("bin", (a, b), sh, "sub")
        if isinstance(op, ast.Mult):
            return N("bin", (a, b), sh, "mul")
        if isinstance(op, ast.Div):
            return N("bin", (a, b), sh, "div")
        if isinstance(op, ast.Mod):
            return N("bin", (a, b), sh, "mod")
        if isinstance(op, ast.Pow):
            if b.op == "num" and b.extra.denominator == 1 and 0 <= b.extra <= 8:
                return N("powi", (a,), a.shape, int(b.extra))
            return N("bin", (a, b), sh, "powr")
        raise Untranslatable("binary operator", node)

    def compare(self, e):
        if len(e.ops) != 1:
            # chained comparisons on data are not needed
            raise Untranslatable("chained comparison", e)
        op = e.ops[0]
        l, r = self.expr(e.left), self.expr(e.comparators[0])
        if isinstance(op, (ast.Is, ast.IsNot)):
            isnone = isinstance(l, NoneV) if isinstance(r, NoneV) else None
            if isnone is None:
                raise Untranslatable("identity comparison", e)
            return isnone if isinstance(op, ast.Is) else (not isnone)
        names = {ast.Lt: "lt", ast.LtE: "le", ast.Gt: "gt", ast.GtE: "ge", ast.Eq: "eq", ast.NotEq: "ne"}
        if type(op) not in names:
            raise Untranslatable("comparison operator", e)
        l, r = self.num_of(l, e), self.num_of(r, e)
        sh = "BV" if elem_shape(l, r) == "V" else "B"
        return N("cmp", (l, r), sh, names[type(op)])

    # -- calls
    def kw(self, e):
        return {k.arg: k.value for k in e.keywords if k.arg}

    def call(self, e):
        src = ast.unparse(e.func)
        whole = ast.unparse(e)
        if whole in self.overrides:
            return self.overrides[whole]
        if src in self.overrides:
            ov = self.overrides[src]
            if isinstance(ov, Abs):
                return self.abstract_call(ov, [self.expr(a) for a in e.args], e)
            return ov
        f = self.expr(e.func)
        args = e.args
        if isinstance(f, Abs):
            return self.abstract_call(f, [self.expr(a) for a in args], e)
        if isinstance(f, tuple):
            kind = f[0]
            if kind == "builtin":
                if f[1] == "len":
                    v = self.expr(args[0])
                    if isinstance(v, Obj) and "x" in v.attrs:
                        v = v.attrs["x"]
                    if isinstance(v, N) and (is_vec(v) or v.shape in ("XV", "ZV")):
                        return N("red", (v,), "S", "len")
                    raise Untranslatable("len of non-vector", e)
                if f[1] in ("float", "int"):
                    return self.expr(args[0])
                if f[1] == "super":
                    return ("super",)
                if f[1] == "isinstance":
                    v = self.expr(args[0])
                    if isinstance(v, (NoneV, Opaque, ModV)) and ast.unparse(args[1]) == "str":
                        return isinstance(v, Opaque) and v.what.startswith("str:")
                    raise Untranslatable("isinstance", e)
                if f[1] == "any":
                    v = self.expr(args[0])
                    if isinstance(v, N) and v.shape in ("BV", "B"):
                        return N("anyb", (v,), "B") if v.shape == "BV" else v
                    raise Untranslatable("any() of non-boolean", e)
                raise Untranslatable("builtin " + f[1], e)
            if kind == "numfunc":
                return self.numfunc(f[1], e)
            if kind == "arrmethod":
                return self.arrmethod(f[1], f[2], e)
            if kind == "modfunc":
                return self.modfunc(f[1], e)
            if kind == "method":
                return self.method_call(f[1], f[2], e)
            if kind == "class":
                return self.construct(f[1], e)
            if kind == "supermethod":
                return self.run_method(f[1], f[2], f[3], e)
        raise Untranslatable("call of " + src, e)

    def abstract_call(self, f, argv, e):
        a = argv[0] if argv else None
        if isinstance(a, Obj):           # user callable applied to a samples object
            x = a.attrs.get("x")
            lp = a.attrs.get("log_prior")
            self.events.append((f.name, x, lp if isinstance(lp, N) else None))
            if not isinstance(x, N):
                raise Untranslatable("abstract call on object without coordinates", e)
            if x.shape == "X":
                return N("app", (x,), "S", f.name)
            if x.shape == "XV":
                return N("appmap", (x,), "V", f.name)
            raise Untranslatable("abstract call on non-point", e)
        if isinstance(a, N):
            if f.shape == "elem":        # elementwise special function (erf, erfinv)
                return N("un", (a,), a.shape, f.name)
            if f.shape == "pair":        # returns (points, log-Jacobians): transform inverse / forward
                if a.shape in ("XV", "ZV"):
                    return Tup([N("appmap", (a,), "XV", f.name + "_pt"), N("appmap", (a,), "V", f.name + "_lj")])
                return Tup([N("app", (a,), "X", f.name + "_pt"), N("app", (a,), "S", f.name + "_lj")])
            self.events.append((f.name, a, None))
            if a.shape == "X":
                return N("app", (a,), "S", f.name)
            if a.shape in ("XV", "ZV"):
                return N("appmap", (a,), "V", f.name)
            return N("app", (a,), "S", f.name)
        raise Untranslatable("abstract call argument", e)

    def summ(self, v):
        if isinstance(v, N):
            return coq_print(v, RTABLE)
        if isinstance(v, NoneV):
            return None
        return type(v).__name__

    def numfunc(self, name, e):
        a = e.args
        kw = self.kw(e)
        if name in UNARY:
            v = self.num_of(self.expr(a[0]), e)
            return N("un", (v,), v.shape, UNARY[name])
        if name in ("sum", "max", "mean", "var"):
            v = self.num_of(self.expr(a[0]), e)
            if not is_vec(v):
                raise Untranslatable("reduction of scalar", e)
            ax = kw.get("axis")
            if ax is not None and not (isinstance(ax, ast.Constant) and ax.value is None) and not isinstance(self.expr(ax), NoneV):
                raise Untranslatable("reduction axis", e)
            return N("red", (v,), "S", name)
        if name == "clip":
            v, lo, hi = (self.num_of(self.expr(x), e) for x in a[:3])
            return N("clip", (v, lo, hi), v.shape)
        if name == "divide":
            return self.binop(ast.Div(), self.expr(a[0]), self.expr(a[1]), e)
        if name in ("ones", "zeros"):
            return num(1 if name == "ones" else 0)      # per-row convention (see module docstring)
        if name in ("asarray", "atleast_1d", "atleast_2d", "array", "copy", "to_device", "as_tensor"):
            return self.expr(a[0])
        if name == "where":
            m, y, x = (self.num_of(self.expr(t), e) for t in a[:3])
            return N("where", (m, y, x), x.shape if is_vec(x) else y.shape)
        if name == "isnan":
            v = self.num_of(self.expr(a[0]), e)
            return N("isnan", (v,), "BV" if is_vec(v) else "B")
        if name == "isfinite":
            v = self.num_of(self.expr(a[0]), e)
            return N("isfinite", (v,), "BV" if is_vec(v) else "B")
        if name == "sqrt":
            v = self.num_of(self.expr(a[0]), e)
            return N("un", (v,), v.shape, "sqrt")
        raise Untranslatable("numeric function " + name, e)

    def arrmethod(self, base, name, e):
        if name in ("sum", "max", "mean", "std"):
            if not is_vec(base):
                if name == "sum":      # sum over an axis that the per-row model has already collapsed
                    return base
                raise Untranslatable("reduction of scalar", e)
            return N("red", (base,), "S", name)
        if name in ("flatten", "copy", "tolist"):
            return base
        if name == "any":
            return N("anyb", (base,), "B")
        raise Untranslatable("array method " + name, e)

    def modfunc(self, name, e):
        if name in IDENTITY_FUNCS:
            return self.expr(e.args[0])
        if name == "update_at_indices":
            x, m, y = (self.expr(a) for a in e.args[:3])
            x, m, y = self.num_of(x, e), self.num_of(m, e), self.num_of(y, e)
            return N("where", (m, y, x), x.shape)
        if name == "get_device":
            return Opaque("device")
        if name == "array_namespace":
            return ModV("xp")
        if name == "is_torch_namespace":
            return False          # the numpy/jax path is the one modelled (torch only differs in default dtype)
        if name in self.tr.gen_funcs:      # reference the separately generated definition
            argv = [self.num_of(self.expr(a), e) for a in e.args]
            kw = self.kw(e)
            sig = self.tr.gen_funcs[name]
            for p in sig["params"][len(argv):]:
                if p in kw:
                    argv.append(self.num_of(self.expr(kw[p]), e))
            if len(argv) != len(sig["params"]):
                raise Untranslatable("arity of generated function " + name, e)
            outs = sig["outs"]
            res = [N("call", argv, sh, f"{sig.get('coq', name)}{suffix}") for suffix, sh in outs]
            return res[0] if len(res) == 1 else Tup(res)
        fn = self.tr.module_funcs(self.module).get(name)
        if fn is None:
            raise Untranslatable("unknown function " + name, e)
        raise Untranslatable("call to untranslated function " + name, e)

    def method_call(self, obj, name, e):
        if name == "array_to_namespace":
            return self.expr(e.args[0])
        return self.run_method(obj, obj.cls, name, e)

    def run_method(self, obj, cls, name, e):
        m = self.tr.find_method(self.module, cls, name)
        if m is None:
            raise Untranslatable(f"method {cls}.{name} not found", e)
        mcls, fn = m
        if any("cache" in ast.unparse(d) for d in fn.decorator_list):
            raise Untranslatable(f"{cls}.{name} is memoised", e)
        is_static = any(ast.unparse(d) == "staticmethod" for d in fn.decorator_list)
        params = [a.arg for a in fn.args.args][(0 if is_static else 1):]     # a static helper has no `self`
        defaults = fn.args.defaults
        env = {} if is_static else {"self": obj}
        dmap = dict(zip(params[len(params) - len(defaults):], defaults))
        for p, a in zip(params, e.args):
            env[p] = self.expr(a)
        for k, v in self.kw(e).items():
            if k not in params:
                raise Untranslatable(f"unexpected keyword {k}", e)
            env[k] = self.expr(v)
        sub = Exec(self.tr, self.module, mcls, name, self.env_globals(), self.overrides)
        sub.env.update(env)
        for p in params:
            if p not in sub.env:
                if p in dmap:
                    sub.env[p] = sub.expr(dmap[p])
                else:
                    raise Untranslatable(f"missing argument {p}", e)
        sub.lets = self.lets       # share the let list: bindings stay in program order
        sub.events = self.events
        sub.guards = self.guards
        sub.assumed = self.assumed
        sub.names = self.names
        sub.flags = {k: v for k, v in self.flags.items() if k != "ignore_return"}
        sub.current_cls = mcls
        sub.run(fn.body)
        return sub.returned if sub.returned is not None else NoneV()

    def env_globals(self):
        return {k: v for k, v in self.env.items() if isinstance(v, (ModV, Abs)) or k in ("math", "np")}

    def construct(self, cls, e):
        fields = self.tr.dataclass_fields(self.module, cls)
        if fields is None:
            raise Untranslatable("constructor of non-dataclass " + cls, e)
        attrs = {f: NoneV() for f in fields}
        for f, a in zip(fields, e.args):
            attrs[f] = self.expr(a)
        for k, v in self.kw(e).items():
            if k not in fields:
                raise Untranslatable(f"unknown field {k} for {cls}", e)
            attrs[k] = self.expr(v)
        given = [k for k in ("log_likelihood", "log_prior", "log_q") if not isinstance(attrs.get(k), NoneV)]
        obj = Obj(cls, attrs)
        if cls == "Samples":
            # Samples.__post_init__: weights are computed when all three densities are present
            if len(given) == 3:
                sub = Exec(self.tr, "samples", "Samples", "compute_weights", self.env_globals(), self.overrides, obj)
                sub.lets, sub.events, sub.guards, sub.assumed = self.lets, self.events, self.guards, self.assumed
                sub.names = self.names
                sub.current_cls = "Samples"
                m = self.tr.find_method("samples", "Samples", "compute_weights")
                sub.run(m[1].body)
            else:
                for k in ("log_w", "weights", "evidence", "evidence_error", "effective_sample_size"):
                    obj.attrs[k] = NoneV()
        return obj


# attribute access `super().__init__` support
_orig_attribute = Exec.attribute


def _attribute(self, e):
    if isinstance(e.value, ast.Call) and ast.unparse(e.value) == "super()":
        cur = getattr(self, "current_cls", self.cls)
        bases = self.tr.bases(self.module, cur)
        for b in bases:
            if self.tr.find_method(self.module, b, e.attr):
                return ("supermethod", self.env["self"], b, e.attr)
        raise Untranslatable("super() method not found", e)
    return _orig_attribute(self, e)


Exec.attribute = _attribute


# ----------------------------------------------------------------------------- printers

RTABLE = {
    "add": "Rplus", "sub": "Rminus", "mul": "Rmult", "div": "Rdiv", "mod": "Rmod", "powr": "rpow",
    "min": "Rmin", "max": "Rmax",
    "neg": "Ropp", "exp": "exp", "ln": "ln", "log1p": "log1p", "sqrt": "sqrt", "abs": "Rabs",
    "erf": "erf", "erfinv": "erfinv",
    "sum": "vsum", "max_red": "vmax", "mean": "vmean", "var": "vvar", "std": "vstd", "len": "vlen",
    "lt": "Rltb", "le": "Rleb", "gt": "Rgtb", "ge": "Rgeb", "eq": "Reqb", "ne": "Rneqb",
    "num": lambda fr: rnum(fr), "pi": "PI", "clip": "clip", "powi": "pow", "T": "R",
    "isnan": None, "isfinite": None, "inf": None, "nan": "nan_placeholder", "where": None,
}

XTABLE = {
    "add": "xadd", "sub": "xsub", "mul": "xmul", "div": "xdiv", "mod": None, "powr": None,
    "min": None, "max": None,
    "neg": "xneg", "exp": "xexp", "ln": "xln", "log1p": None, "sqrt": None, "abs": None,
    "sum": "xvsum", "max_red": "xvmax", "mean": None, "var": None, "std": None, "len": "xvlen",
    "lt": "xltb", "le": "xleb", "gt": "xgtb", "ge": "xgeb", "eq": "xeqb", "ne": "xneqb",
    "num": lambda fr: "(Fin %s)" % rnum(fr), "pi": "(Fin PI)", "clip": None, "powi": None, "T": "XR",
    "isnan": "xisnan", "isfinite": "xisfinite", "inf": "PInf", "nan": "NaN", "where": "xwhere",
}


def rnum(fr: Fraction):
    if fr.denominator == 1:
        return f"{fr.numerator}" if fr.numerator >= 0 else f"(-{-fr.numerator})"
    s = f"({abs(fr.numerator)} / {fr.denominator})"
    return s if fr >= 0 else f"(- {s})"


def coq_print(n: N, T) -> str:
    def need(k):
        v = T.get(k)
        if v is None:
            raise Untranslatable(f"operator {k} not available in this numeric domain")
        return v

    P = lambda x: coq_print(x, T)
    op = n.op
    if op == "var":
        return n.extra
    if op == "num":
        return T["num"](n.extra)
    if op == "pi":
        return need("pi")
    if op in ("inf", "nan"):
        return need(op)
    if op == "un":
        f = need(n.extra)
        a = n.args[0]
        return f"(map {f} {P(a)})" if is_vec(a) else f"({f} {P(a)})"
    if op == "bin":
        f = need(n.extra)
        a, b = n.args
        if is_vec(a) and is_vec(b):
            return f"(vmap2 {f} {P(a)} {P(b)})"
        if is_vec(a):
            return f"(map (fun t_ => {f} t_ {P(b)}) {P(a)})"
        if is_vec(b):
            return f"(map (fun t_ => {f} {P(a)} t_) {P(b)})"
        return f"({f} {P(a)} {P(b)})"
    if op == "powi":
        f = need("powi")
        a = n.args[0]
        return f"(map (fun t_ => {f} t_ {n.extra}) {P(a)})" if is_vec(a) else f"({f} {P(a)} {n.extra})"
    if op == "red":
        key = "max_red" if n.extra == "max" else n.extra
        return f"({need(key)} {P(n.args[0])})"
    if op == "cmp":
        f = need(n.extra)
        a, b = n.args
        if is_vec(a) and is_vec(b):
            return f"(vmap2 {f} {P(a)} {P(b)})"
        if is_vec(a):
            return f"(map (fun t_ => {f} t_ {P(b)}) {P(a)})"
        if is_vec(b):
            return f"(map (fun t_ => {f} {P(a)} t_) {P(b)})"
        return f"({f} {P(a)} {P(b)})"
    if op == "not":
        a = n.args[0]
        return f"(map negb {P(a)})" if a.shape == "BV" else f"(negb {P(a)})"
    if op == "ite":
        c, a, b = n.args
        return f"(if {P(c)} then {P(a)} else {P(b)})"
    if op == "clip":
        f = need("clip")
        v, lo, hi = n.args
        if is_vec(lo) or is_vec(hi):
            raise Untranslatable("vector clip bounds")
        return f"(map (fun t_ => {f} t_ {P(lo)} {P(hi)}) {P(v)})" if is_vec(v) else f"({f} {P(v)} {P(lo)} {P(hi)})"
    if op == "app":
        return f"({n.extra} {P(n.args[0])})"
    if op == "appmap":
        return f"(map {n.extra} {P(n.args[0])})"
    if op == "call":
        return "(" + n.extra + "".join(" " + P(a) for a in n.args) + ")"
    if op in ("isnan", "isfinite"):
        f = need(op)
        a = n.args[0]
        return f"(map {f} {P(a)})" if is_vec(a) else f"({f} {P(a)})"
    if op == "where":
        f = need("where")
        m, y, x = n.args
        if is_vec(x):
            if is_vec(y):
                raise Untranslatable("vector replacement in where")
            return f"(vmap2 (fun m_ t_ => {f} m_ {P(y)} t_) {P(m)} {P(x)})"
        return f"({f} {P(m)} {P(y)} {P(x)})"
    if op == "anyb":
        return f"(existsb (fun b_ => b_) {P(n.args[0])})"
    if op == "select":
        v, ix = n.args
        d = "dX" if v.shape == "XV" else T["num"](Fraction(0))
        return f"(select {P(ix)} {P(v)} {d})"
    raise Untranslatable("cannot print IR op " + op)


def free_vars(n: N, acc=None):
    acc = set() if acc is None else acc
    if n.op == "var":
        acc.add(n.extra)
    for a in n.args:
        free_vars(a, acc)
    return acc


HAS_EXPARGS = set()


def exp_args(n: N, acc):
    """All arguments handed to exp inside n (for the no-overflow theorems), including those inside
    calls to other generated definitions (through their _expargs companions)."""
    if n.op == "un" and n.extra == "exp":
        acc.append(n.args[0])
    if n.op == "call" and n.extra in HAS_EXPARGS:
        acc.append(N("call", n.args, "V", n.extra + "_expargs"))
    for a in n.args:
        exp_args(a, acc)


COQ_TYPES = {"S": "{T}", "V": "list {T}", "B": "bool", "BV": "list bool", "X": "X", "XV": "list X", "ZV": "list Z",
             "I": "list nat"}


class Translator:
    def __init__(self, srcdir: Path):
        self.srcdir = Path(srcdir)
        self.trees = {}
        self.gen_funcs = {}      # name -> {"params": [...], "outs": [(suffix, shape)]}
        self.imported_funcs = set()

    def tree(self, module):
        if module not in self.trees:
            p = self.srcdir / (module.replace(".", "/") + ".py")
            self.trees[module] = ast.parse(p.read_text())
        return self.trees[module]

    def module_consts(self, module):
        """Top-level `NAME = <expr>` bindings of a module that are assigned exactly once (and never declared global in a function)."""
        tree = self.tree(module)
        count, val = {}, {}
        for n in tree.body:
            targets = []
            if isinstance(n, ast.Assign):
                targets = [t for t in n.targets]
            elif isinstance(n, (ast.AugAssign, ast.AnnAssign)):
                targets = [n.target]
            for t in targets:
                if isinstance(t, ast.Name):
                    count[t.id] = count.get(t.id, 0) + 1
                    if isinstance(n, ast.Assign) and len(n.targets) == 1:
                        val[t.id] = n.value
        globs = {name for n in ast.walk(tree) if isinstance(n, ast.Global) for name in n.names}
        return {k: v for k, v in val.items() if count.get(k) == 1 and k not in globs}

    def module_funcs(self, module):
        return {n.name: n for n in self.tree(module).body if isinstance(n, ast.FunctionDef)}

    def classes(self, module):
        return {n.name: n for n in self.tree(module).body if isinstance(n, ast.ClassDef)}

    # class lookup across the modules we know
    CLASS_HOME = {"BaseSamples": "samples", "Samples": "samples", "SMCSamples": "samples",
                  "BaseTransform": "transforms", "Sampler": "samplers.base", "MCMCSampler": "samplers.mcmc",
                  "SMCSampler": "samplers.smc.base", "NumpySMCSampler": "samplers.smc.base",
                  "ImportanceSampler": "samplers.importance", "MiniPCN": "samplers.mcmc", "Emcee": "samplers.mcmc",
                  "Flow": "flows.base", "BaseTorchFlow": "flows.torch.flows", "ZukoFlow": "flows.torch.flows",
                  "FlowJax": "flows.jax.flows"}

    def class_node(self, module, cls):
        c = self.classes(module).get(cls)
        if c is not None:
            return module, c
        home = self.CLASS_HOME.get(cls)
        if home:
            c = self.classes(home).get(cls)
            if c is not None:
                return home, c
        return None

    def bases(self, module, cls):
        r = self.class_node(module, cls)
        if r is None:
            return []
        return [ast.unparse(b) for b in r[1].bases]

    def find_method(self, module, cls, name):
        seen = set()
        todo = [cls]
        while todo:
            c = todo.pop(0)
            if c in seen:
                continue
            seen.add(c)
            r = self.class_node(module, c)
            if r is None:
                continue
            for n in r[1].body:
                if isinstance(n, ast.FunctionDef) and n.name == name:
                    return c, n
            todo.extend(ast.unparse(b) for b in r[1].bases)
        return None

    def dataclass_fields(self, module, cls):
        r = self.class_node(module, cls)
        if r is None:
            return None
        out = []
        for b in r[1].bases:
            bf = self.dataclass_fields(module, ast.unparse(b))
            if bf:
                out.extend(bf)
        for n in r[1].body:
            if isinstance(n, ast.AnnAssign) and isinstance(n.target, ast.Name):
                initf = True
                if isinstance(n.value, ast.Call) and ast.unparse(n.value.func) == "field":
                    for k in n.value.keywords:
                        if k.arg == "init" and isinstance(k.value, ast.Constant) and k.value.value is False:
                            initf = False
                if initf and n.target.id not in out:
                    out.append(n.target.id)
        return out

    # -- translating one target
    def translate(self, spec):
        module, cls, fname = spec["module"], spec.get("cls"), spec["func"]
        if cls:
            m = self.find_method(module, cls, fname)
            if m is None:
                raise Untranslatable(f"{cls}.{fname} not found in {module}")
            fn = m[1]
        else:
            fn = self.module_funcs(module).get(fname)
            if fn is None:
                raise Untranslatable(f"{fname} not found in {module}")
        env = {"math": ModV("math"), "np": ModV("np"), "xp": ModV("xp")}
        self_obj = None
        if cls:
            self_obj = Obj(cls, spec.get("self", {}))
        ex = Exec(self, module, cls, fname, env, spec.get("overrides"), self_obj)
        ex.current_cls = m[0] if cls else None
        ex.flags = dict(spec.get("flags", {}))
        for (iname, _shape) in spec.get("inputs", []):
            ex.names[iname] = 1          # a let may never take the name of an input (SSA)
        for (mname, mparams, movr) in spec.get("pre_methods", []):
            pm = self.find_method(module, cls, mname)
            if pm is None:
                raise Untranslatable(f"pre-method {mname} not found")
            ov = dict(spec.get("overrides") or {})
            ov.update(movr or {})
            sub = Exec(self, module, pm[0], mname, env, ov, self_obj)
            sub.current_cls = pm[0]
            sub.lets = ex.lets
            sub.guards = ex.guards
            sub.names = ex.names
            pfn = pm[1]
            pparams = [a.arg for a in pfn.args.args][1:]
            pdef = dict(zip(pparams[len(pparams) - len(pfn.args.defaults):], pfn.args.defaults))
            for p_ in pparams:
                if p_ in mparams:
                    sub.env[p_] = mparams[p_]
                elif p_ in pdef:
                    sub.env[p_] = sub.expr(pdef[p_])
                else:
                    raise Untranslatable(f"{mname} argument {p_} unbound")
            sub.run(pfn.body)
        if cls and spec.get("init"):
            # run __init__ (symbolically) first to populate derived attributes
            im = self.find_method(module, cls, "__init__")
            ifn = im[1]
            sub = Exec(self, module, im[0], "__init__", env, spec.get("overrides"), self_obj)
            sub.current_cls = im[0]
            sub.lets = ex.lets
            sub.names = ex.names
            for p, v in spec["init"].items():
                sub.env[p] = v
            iparams = [a.arg for a in ifn.args.args][1:]
            idef = dict(zip(iparams[len(iparams) - len(ifn.args.defaults):], ifn.args.defaults))
            for p in iparams:
                if p not in sub.env:
                    if p in idef:
                        sub.env[p] = sub.expr(idef[p])
                    else:
                        raise Untranslatable(f"__init__ argument {p} unbound")
            sub.run(ifn.body)
        params = [a.arg for a in fn.args.args]
        if cls:
            params = params[1:]
        defaults = dict(zip(params[len(params) - len(fn.args.defaults):], fn.args.defaults))
        for p in params:
            if p in spec.get("params", {}):
                ex.env[p] = spec["params"][p]
            elif p in defaults:
                ex.env[p] = ex.expr(defaults[p])
            else:
                raise Untranslatable(f"parameter {p} unbound in spec")
        ex.run(fn.body)
        # outputs
        outs = {}
        for oname, osrc in spec["outputs"].items():
            if osrc == "return":
                v = ex.returned
            elif osrc.startswith("return["):
                v = ex.returned.items[int(osrc[7:-1])]
            elif osrc.startswith("return."):
                v = ex.returned.attrs.get(osrc[7:]) if isinstance(ex.returned, Obj) else None
            elif osrc.startswith("self."):
                v = self_obj.attrs.get(osrc[5:])
            else:
                v = ex.env.get(osrc)
            if not isinstance(v, N):
                raise Untranslatable(f"output {oname} ({osrc}) is not numeric: {type(v).__name__}")
            outs[oname] = v
        return ex, outs


def needed_lets(ex, nodes):
    """Program-order lets the given nodes depend on (later lets shadow earlier ones of the same name)."""
    lets = list(ex.lets)
    needed = []
    want = set()
    for v in nodes:
        want |= free_vars(v)
    for i in range(len(lets) - 1, -1, -1):
        nm, val = lets[i]
        if nm in want:
            needed.append((nm, val))
            want.discard(nm)
            want |= free_vars(val)
    needed.reverse()
    return needed


def arg_text(inputs, tname, section_types=False):
    args = " ".join(f"({n} : {COQ_TYPES[s].format(T=tname)})" for n, s in inputs)
    if not section_types and any(s in ("X", "XV") for _, s in inputs):
        args = "{X : Type} " + args
    return args


def emit_defs(prefix, inputs, ex, outs, T, section_types=False):
    """Print one Definition per output: all program-order lets it depends on, then the result."""
    tname = T["T"]
    lines = []
    irjson = {}
    for oname, v in outs.items():
        needed = needed_lets(ex, [v])
        args = arg_text(inputs, tname, section_types)
        body = ""
        for nm, val in needed:
            body += f"  let {nm} := {coq_print(val, T)} in\n"
        body += f"  {coq_print(v, T)}"
        rtype = COQ_TYPES[v.shape].format(T=tname)
        name = f"{prefix}_{oname}" if oname else prefix
        lines.append(f"Definition {name} {args} : {rtype} :=\n{body}.\n")
        irjson[name] = {"inputs": inputs, "lets": [(nm, val.to_json()) for nm, val in needed], "result": v.to_json()}
        # exp-argument companion
        ea = []
        for nm, val in needed:
            exp_args(val, ea)
        exp_args(v, ea)
        if ea and T is RTABLE:
            HAS_EXPARGS.add(name)
            parts = []
            for a in ea:
                parts.append(coq_print(a, T) if is_vec(a) else f"[{coq_print(a, T)}]")
            body2 = ""
            for nm, val in needed:
                body2 += f"  let {nm} := {coq_print(val, T)} in\n"
            body2 += "  " + " ++ ".join(parts)
            lines.append(f"Definition {name}_expargs {args} : list {tname} :=\n{body2}.\n")
    return "\n".join(lines), irjson


CALL_CTOR = {"L": "ULik", "Pi": "UPrior", "Q": "UFlow"}


def emit_calls(prefix, inputs, ex, T, section_types=True):
    """The user-callable / proposal-density invocations of the target, in program order, with the
    coordinates handed over and (for the likelihood) the log-prior attached to the samples object at that moment."""
    tname = T["T"]
    nodes = []
    for name, x, lp in ex.events:
        nodes.append(x)
        if lp is not None:
            nodes.append(lp)
    needed = needed_lets(ex, nodes)
    body = ""
    for nm, val in needed:
        body += f"  let {nm} := {coq_print(val, T)} in\n"
    items = []
    for name, x, lp in ex.events:
        ctor = CALL_CTOR.get(name)
        if ctor is None:
            raise Untranslatable("abstract call to %s has no event constructor" % name)
        pts = coq_print(x, T) if x.shape in ("XV", "ZV") else f"[{coq_print(x, T)}]"
        if ctor == "ULik":
            if lp is None:
                att = "None"
            else:
                att = f"(Some {coq_print(lp, T)})" if is_vec(lp) else f"(Some [{coq_print(lp, T)}])"
            items.append(f"ULik {pts} {att}")
        else:
            items.append(f"{ctor} {pts}")
    body += "  [" + "; ".join(items) + "]"
    args = arg_text(inputs, tname, section_types)
    return f"Definition {prefix}_calls {args} : list (ucall X) :=\n{body}.\n"


# ----------------------------------------------------------------------------- numeric evaluation of the IR (mpmath)

def evaluate(irdef, inputs, absfuncs=None):
    """Evaluate a printed definition (its JSON IR) with mpmath. inputs: name -> mpf | list[mpf] | point."""
    import mpmath as mp
    env = dict(inputs)
    absfuncs = absfuncs or {}

    def frac(s):
        a, b = s.split("/")
        return mp.mpf(int(a)) / mp.mpf(int(b))

    def isv(x):
        return isinstance(x, list)

    def lift1(f, a):
        return [f(t) for t in a] if isv(a) else f(a)

    def lift2(f, a, b):
        if isv(a) and isv(b):
            if len(a) != len(b):
                raise ValueError("length mismatch")
            return [f(x, y) for x, y in zip(a, b)]
        if isv(a):
            return [f(x, b) for x in a]
        if isv(b):
            return [f(a, y) for y in b]
        return f(a, b)

    def pmod(a, w):
        return a - w * mp.floor(a / w)

    B = {"add": lambda a, b: a + b, "sub": lambda a, b: a - b, "mul": lambda a, b: a * b, "div": lambda a, b: a / b,
         "mod": pmod, "powr": lambda a, b: (mp.mpf(0) if (a == 0 and b != 0) else mp.power(a, b))}
    U = {"neg": lambda a: -a, "exp": mp.exp, "ln": mp.log, "log1p": mp.log1p, "sqrt": mp.sqrt, "abs": abs,
         "erf": mp.erf, "erfinv": mp.erfinv}
    C = {"lt": lambda a, b: a < b, "le": lambda a, b: a <= b, "gt": lambda a, b: a > b, "ge": lambda a, b: a >= b,
         "eq": lambda a, b: a == b, "ne": lambda a, b: a != b}

    def ev(n):
        op, args, extra = n["op"], n["args"], n["extra"]
        if op == "var":
            return env[extra]
        if op == "num":
            return frac(extra)
        if op == "pi":
            return mp.pi
        if op == "inf":
            return mp.inf
        if op == "nan":
            return mp.nan
        if op == "un":
            return lift1(U[extra], ev(args[0]))
        if op == "bin":
            return lift2(B[extra], ev(args[0]), ev(args[1]))
        if op == "powi":
            return lift1(lambda t: t ** extra, ev(args[0]))
        if op == "red":
            v = ev(args[0])
            if extra == "len":
                return mp.mpf(len(v))
            if extra == "sum":
                return mp.fsum(v)
            if extra == "max":
                return max(v)
            if extra == "mean":
                return mp.fsum(v) / len(v)
            if extra in ("var", "std"):
                m = mp.fsum(v) / len(v)
                vv = mp.fsum([(t - m) ** 2 for t in v]) / len(v)
                return vv if extra == "var" else mp.sqrt(vv)
        if op == "cmp":
            return lift2(C[extra], ev(args[0]), ev(args[1]))
        if op == "not":
            return lift1(lambda t: not t, ev(args[0]))
        if op == "ite":
            return ev(args[1]) if ev(args[0]) else ev(args[2])
        if op == "clip":
            lo, hi = ev(args[1]), ev(args[2])
            return lift1(lambda t: min(max(t, lo), hi), ev(args[0]))
        if op == "app":
            return absfuncs[extra](ev(args[0]))
        if op == "appmap":
            return [absfuncs[extra](t) for t in ev(args[0])]
        if op == "call":
            return absfuncs[extra](*[ev(a) for a in args])
        if op == "isnan":
            return lift1(mp.isnan, ev(args[0]))
        if op == "isfinite":
            return lift1(lambda t: not (mp.isnan(t) or mp.isinf(t)), ev(args[0]))
        if op == "where":
            m, y, x = ev(args[0]), ev(args[1]), ev(args[2])
            if isv(x):
                return [y if mm else xx for mm, xx in zip(m, x)]
            return y if m else x
        if op == "anyb":
            return any(ev(args[0]))
        raise ValueError("cannot evaluate " + op)

    for nm, val in irdef["lets"]:
        env[nm] = ev(val)
    return ev(irdef["result"])


def make_evaluator(irall):
    """Return f(defname, **inputs) evaluating generated definitions, resolving calls to other generated defs."""
    def run(name, absfuncs=None, **inputs):
        d = irall[name]
        af = dict(absfuncs or {})

        def mk(nm):
            def g(*a):
                dd = irall[nm]
                return run(nm, absfuncs, **{p: v for (p, _), v in zip(dd["inputs"], a)})
            return g
        for nm in irall:
            af.setdefault(nm, mk(nm))
        return evaluate(d, inputs, af)
    return run


# ----------------------------------------------------------------------------- targets

def V(n):
    return var(n, "V")


def S(n):
    return var(n, "S")


HEADER = """(* GENERATED on every run by /verif/tools/translate.py from /repo/src/aspire (working tree).
   Do not edit: the theorems in Proofs/ and Props/ are re-checked against this text. *)
From Coq Require Import Reals List Bool.
From AV Require Import Lib.Vec.
Import ListNotations.
Open Scope R_scope.
"""

XHEADER = """(* GENERATED on every run by /verif/tools/translate.py from /repo/src/aspire (working tree). Do not edit. *)
From Coq Require Import Reals List Bool.
From AV Require Import Lib.Vec Lib.XR.
Import ListNotations.
Open Scope R_scope.
"""


def generate(srcdir, outdir):
    """Regenerate every Gen file; returns {target: (ok, detail)}. Files are rewritten only on change."""
    outdir = Path(outdir)
    outdir.mkdir(parents=True, exist_ok=True)
    status = {}
    HAS_EXPARGS.clear()
    tr = Translator(srcdir)
    import gen_targets
    files = gen_targets.build(tr, status)
    for fname, text in files.items():
        p = outdir / fname
        if not p.exists() or p.read_text() != text:
            p.write_text(text)
    return status


if __name__ == "__main__":
    import sys
    sys.path.insert(0, str(Path(__file__).resolve().parent))
    import translate as _t
    st = _t.generate(Path(sys.argv[1] if len(sys.argv) > 1 else "/repo/src/aspire"),
                  Path(sys.argv[2] if len(sys.argv) > 2 else "/verif/coq/Gen"))
    for k, v in st.items():
        print(k, "OK" if v[0] else "FAIL " + v[1])
