#!/usr/bin/env python3
"""Regenerates /verif/MANIFEST.json from the table below (run after adding a property check)."""
import json
from pathlib import Path

V = Path(__file__).resolve().parent.parent
CHECKS = {
 "C02": dict(
  technique="Coq proof over exact reals of the definitions regenerated from samples.py/utils.py by a fail-closed Python-ast translator; numeric differential (mpmath evaluation of the same IR) against the implementation in numpy/torch/jax x float32/float64",
  text="Fourteen theorems (log_w per row, logsumexp spec, log-evidence = log mean weight, ESS formula and 1<=ESS<=N via Cauchy-Schwarz, permutation invariance, constant-shift law, relative-error formula, every exp argument <= 0 / <= ln N, rejection rule) proved in Coq for every non-empty population of any size, about Gallina text regenerated from the source on every run; the translator is differentially validated against the running code each run. Proof is the right level because the property quantifies over all vectors; rounding is outside the model and is only sampled.",
  note="Trusted: Coq kernel; real-number axioms + classic + functional_extensionality_dep (Reals/Coquelicot, listed by Print Assumptions); tools/translate.py and its mpmath evaluator; binary32/64 rounding inside exp/log/sum not modelled; rows with -inf log-weight covered by search only.",
  ref="DESIGN.md section 5 C02"),
}
PENDING_REASON = "check not built yet in this round (planned: DESIGN.md section 5); no claim is made"


def main():
    props = [json.loads(l) for l in (V / "properties.jsonl").read_text().splitlines() if l.strip()]
    checks, na = [], []
    for p in props:
        pid = p["id"]
        c = CHECKS.get(pid)
        if not c:
            na.append({"property_id": pid, "reason": PENDING_REASON})
            continue
        checks.append({
            "property_id": pid,
            "quick_cmd": f"./check {pid} --tier quick",
            "thorough_cmd": f"./check {pid} --tier thorough",
            "evidence_file": f"/verif/evidence/{pid}.json",
            "replay_cmd_template": f"./check {pid} --replay {{path}}",
            "engine": "coq-proof",
            "level_claimed": {"category": "proof", "text": c["text"], "design_ref": c["ref"]},
            "level_note": c["note"],
            "technique": c["technique"],
        })
    man = {
        "version": 1,
        "setup_cmd": "./check setup",
        "hooks": {"guard": "ASPIRE_VERIF", "enable": "no source hooks are needed: checks observe aspire from outside (wrapped user callables, spy generators, checkpoint callbacks, HDF5 files); ASPIRE_VERIF=1 is exported by ./check but read by nothing in /repo",
                  "baseline_off_cmd": "cd /repo && /venv/bin/python -m pytest -ra -q -p no:cacheprovider --timeout=900 --continue-on-collection-errors",
                  "source_commits": [], "add_only": True},
        "engines": [{"name": "coq-proof", "path": "/verif/coq", "serves_properties": [c["property_id"] for c in checks],
                     "kind_free_text": "Coq 8.16 development (Lib/ Gen/ Model/ Proofs/ Props/) + Python harness (translator, correspondence via vm_compute, implementation search)"}],
        "checks": checks,
        "not_applicable": na,
        "notes": "Every check = translator regeneration + full .vo build of Props/<id>.v + correspondence + implementation search; see DESIGN.md. fix: commits in /repo are listed in known_findings.json as status=fixed.",
    }
    (V / "MANIFEST.json").write_text(json.dumps(man, indent=1))
    print("checks:", [c["property_id"] for c in checks], "pending:", len(na))


if __name__ == "__main__":
    main()
