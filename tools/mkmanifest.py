#!/usr/bin/env python3
"""Regenerates /verif/MANIFEST.json from the table below (run after adding a property check)."""
import json
from pathlib import Path

V = Path(__file__).resolve().parent.parent
CHECKS = {
 "C02": dict(
  technique="Coq proof over exact reals of the definitions regenerated from samples.py/utils.py by a fail-closed Python-ast translator; numeric differential (mpmath evaluation of the same IR) against the implementation in numpy/torch/jax x float32/float64",
  text="(Rows equal to -inf: the same functions translated over XR = reals + NaN/-inf/+inf; theorems C02_neg_inf_rows_*: a -inf row weighs zero but counts in N, nothing is NaN while one row is finite, all rows -inf gives NaN.) Fourteen theorems (log_w per row, logsumexp spec, log-evidence = log mean weight, ESS formula and 1<=ESS<=N via Cauchy-Schwarz, permutation invariance, constant-shift law, relative-error formula, every exp argument <= 0 / <= ln N, rejection rule) proved in Coq for every non-empty population of any size, about Gallina text regenerated from the source on every run; the translator is differentially validated against the running code each run. Proof is the right level because the property quantifies over all vectors; rounding is outside the model and is only sampled.",
  note="Trusted: Coq kernel; real-number axioms + classic + functional_extensionality_dep (Reals/Coquelicot, listed by Print Assumptions); tools/translate.py and its mpmath evaluator; binary32/64 rounding inside exp/log/sum not modelled; rows with -inf log-weight covered by search only.",
  ref="DESIGN.md section 5 C02"),
}

SMC_NOTE = ("Trusted: Coq kernel (+ vm_compute for the binary64 finite-domain theorem and for evaluating the model in the correspondence); real-number axioms, classic, functional_extensionality_dep where Print Assumptions lists them; the hand-written model Model/SMC.v is tied to smc/base.py by bit-exact oracle replay (recorded ESS/ratio/target answers, not recomputed in Coq); stub kernel packages /verif/stubs (minipcn, orng, emcee are not installable), analytic FakeFlow; rounding separates the NumR theorems from the NumF execution.")
CHECKS.update({
 "C06": dict(technique="Coq proof (induction over loop iterations, arbitrary efficiency oracle) at exact reals + vm_compute over all n<=4096 at binary64; model tied to the code by bit-exact oracle replay of real SMC runs",
  text="Theorems: temperatures strictly increasing in (0,1], one per iteration, last one exactly 1 unless the step cap stopped the run, cap never exceeded, explicit termination bound and no error for every valid option record and EVERY efficiency oracle (= every population); fixed schedule of n steps takes exactly n iterations (exact reals, and binary64 for all n<=4096 and any oracle). The model is one Gallina source executed at binary64 against recorded runs (every determine_beta query and result bit-exact) and proved at R.",
  note=SMC_NOTE, ref="DESIGN.md section 5 C06"),
 "C07": dict(technique="Coq proof about the bisection of determine_beta for an arbitrary efficiency curve + translated ESS/log-weight kernels; bit-exact replay of every determine_beta call; mpmath recomputation of ESS at beta and beta+tol on stored populations; Coquelicot proof (is_derive, MVT) that the code's efficiency curve is non-increasing in the temperature",
  text="Theorems: the bisection returns a bracket [a,bb] of width <= tol with efficiency(a) >= target in force and efficiency(bb) < target (or a=1); the temperature taken is max(bracket step, beta_prev+min_step) clamped to 1 - the floor is the only way to exceed it; if efficiency is non-increasing nothing beyond bb is admissible, and the efficiency the code queries (translated effective_sample_size(log_weights(b))/N) IS non-increasing in b for every population (C07_code_curve_nonincreasing / C07_code_curve_maximal: tilted means ordered by Cauchy-Schwarz); the efficiency the code uses is ESS of the incremental weights (translated kernels), invariant under the normalising shift.",
  note=SMC_NOTE + " The monotonicity of the ESS curve is proved over exact reals for the translated kernels and probed on the implementation (binary64 populations, relative slack 1e-7).", ref="DESIGN.md section 5 C07"),
 "C08": dict(technique="Coq proof by induction over the loop for any numeric instance (reals and binary64) and any oracle + translated ratio kernels; oracle replay; mpmath recomputation from stored populations; metamorphic run pairs",
  text="Theorems: log_evidence = fold-sum of ratio(pop_{t-1}, beta_t) over exactly the recorded iterations, error = sqrt of the summed variances, for every run of the model; independence from checkpoint options and the final enlargement (equal evidence for option records differing only there); each ratio is ln of the mean incremental weight (translated kernel).",
  note=SMC_NOTE, ref="DESIGN.md section 5 C08"),
 "C11": dict(technique="Coq proof: restore inverts the checkpoint payload on the loop state, and resume-from-any-emitted-payload returns the same output (induction over the loop, exact reals, any oracle); real runs resumed by bytes/dict/path/resume_from_file and after injected faults compared bit for bit",
  text="Theorem C11_resume_equals_uninterrupted: for every payload a run emits (any iteration, or the forced final one) the resumed run returns exactly the uninterrupted output and a suffix of the checkpoint sequence - for every oracle and valid option record. The search resumes real runs from every (quick: sampled) payload through each route and from faults injected at user-call k and demands bit-identical results.",
  note=SMC_NOTE + " Pickle/HDF5 are identity oracles in the model (C12/C13 cover them); EmceeSMC excluded from bit-exact comparison (emcee's generator is unseeded by construction).", ref="DESIGN.md section 5 C11"),
 "C12": dict(technique="Coq proof of the checkpoint cadence of the loop model (any numeric instance) and of byte-exact blob replacement (Model/Blob.v); oracle replay of callback sequences; fault injection on real HDF5 files",
  text="Theorems: callback invocations of a T-iteration run are exactly the iterations with every>0 and i mod every = 0, plus one forced final payload; each payload is the current loop state; write_blob old new = new for all sizes; after any prefix of the run's checkpoint writes the dataset is byte for byte the last payload of that prefix and always one whole payload (file_after); a run resumed from any payload under any option record (another cadence included) checkpoints exactly at the run's iteration numbers beyond the payload's that the cadence dictates, plus the forced final one (C12_cadence_of_a_resumed_run). The search interrupts under one cadence and resumes under another, and interrupts real Aspire runs at user-call k and checks the file holds config, flow and byte-for-byte the last emitted payload, loadable.",
  note=SMC_NOTE + " h5py dataset semantics are modelled (Model/Blob.v) and compared with real files; process-kill atomicity of HDF5 is outside the model.", ref="DESIGN.md section 5 C12"),
 "C18": dict(technique="Coq proof (inductive faithful-record relation over the loop, any numeric instance, any oracle) + C11 for resumed runs; oracle replay; mpmath recomputation of every recorded value from neighbouring stored populations",
  text="Theorems: every series has one entry per iteration; stored populations = initial :: population after each iteration; beta/ESS/ESS-at-1/ratio/variance/target entries equal their definitions on the neighbouring stored population; the same for resumed runs. The acceptance series is refuted (one extra entry with n_final_samples) and recorded as a known finding with a partial theorem.",
  note=SMC_NOTE, ref="DESIGN.md section 5 C18"),
})

CALLS_NOTE = ("Trusted: Coq kernel; real-number axioms + classic + functional_extensionality_dep where listed by Print Assumptions; tools/translate.py "
              "(symbolic execution of the straight-line sampler methods with an object model of sample sets and abstract user callables) and its mpmath "
              "IR evaluator, validated each run by a numeric differential against the running samplers; stub kernel packages; FakeFlow. "
              "Reals extended with NaN/+-inf (Lib/XR.v) follow the IEEE rules for the special values but do not round.")
CHECKS.update({
 "C05": dict(technique="Coq proof over reals extended with NaN/-inf/+inf about the log_prob call sites regenerated from the three SMC adapters and the MCMC base class; numeric differential of every sampler class x preconditioning x namespace",
  text="Theorems (for every user likelihood, prior, proposal density and every preconditioning inverse): the value handed to the kernel is, row by row, (1-b) log q + b (log L + log pi) + log|J| (b=1, no q for MCMC); a zero-prior point gets -inf, never a finite number; the SMC value is never NaN (NaN -> -inf); the BlackJAX adapter computes the same row function. The run-time differential drives the real log_prob of 5 sampler classes under 8 (+flow) preconditioning configurations and cross-checks the transform's reported log-Jacobian by finite differences.",
  note=CALLS_NOTE + " That the reported log-Jacobian is the true one is property C04.", ref="DESIGN.md section 5 C05"),
 "C09": dict(technique="Coq proof about the probability vector (translated kernel: softmax of incremental weights) and about the rows of the resampled population (translated constructor call, struct-of-arrays select); spy generator with scripted index vectors on the implementation",
  text="Theorems: the vector handed to the generator is exp((b'-b)(logL+logpi-logq)) normalised, sums to 1, is positive; for ANY index vector every output row is an exact copy of one source row (coordinates and all three log-densities from the same index); size = requested, temperature = b'. The check hands resample() a spy generator and compares rows exactly in three namespaces and two widths.",
  note=CALLS_NOTE + " numpy's Generator.choice is trusted to draw index i with probability p[i].", ref="DESIGN.md section 5 C09"),
 "C10": dict(technique="Coq proof: coherence (stored densities = user functions at the stored coordinates) of the translated mutation / importance call sites, preserved by selection and resampling, lifted to every stored population and checkpoint by an invariant theorem over the SMC loop model; hand model of the initial-draw loop compared row by row (vm_compute)",
  text="Theorems: mutate (both kernels) and the importance sampler return coordinates with their own q, prior and likelihood; resampling/selection preserve that; any population invariant preserved by resampling and mutation holds for the final samples, every stored population and every checkpoint payload of every run (induction over the loop); the initial population has exactly n rows, finite priors, and each row keeps the proposal density drawn with it. The search recomputes the user functions on every stored row of whole runs of all five samplers.",
  note=CALLS_NOTE, ref="DESIGN.md section 5 C10"),
 "C17": dict(technique="Coq proof about the user-callable invocation lists regenerated from every translated call site (prior evaluated first, likelihood receives exactly that log-prior, counter += points); run-time audit of every likelihood call in whole runs",
  text="Theorems, for every translated call site (SMC/BlackJAX/MCMC kernel targets, post-mutation re-evaluation in both kernels, importance sampling, convert_to_samples) and the initial draw: each likelihood call is preceded by a prior call on the same points, the samples it receives carry map Pi pts, and n_likelihood_evaluations grows by exactly the number of points. The audit wraps the user callables in whole runs of all samplers, including final enlargement and resumed runs.",
  note=CALLS_NOTE + " Emcee.sample / MiniPCN.sample epilogues are covered by the run-time audit only.", ref="DESIGN.md section 5 C17"),
})

CHECKS.update({
 "C15": dict(technique="finite-domain Coq theorem (vm_compute over the whole 3240-point space of class x namespace x width x dtype spelling x field subset x target x target dtype, lifted with forallb_forall) about a model of the dtype/namespace conversion logic; exhaustive grid on the implementation; library behaviour probed as an oracle",
  text="Theorem C15_all_pairs: for every point of the space, to_namespace / from_samples / to_numpy succeed, land in the target namespace with the target's own dtype object, keep every optional field and the float width (or the requested one), and the SMC result keeps the population's width. The bound is the statement; the same grid is executed on the implementation (values compared exactly) and the oracle table (which dtype objects each library's asarray accepts, default widths) is probed from the installed libraries each run.",
  note="Trusted: Coq kernel + vm_compute; the hand model Model/Convert.v is tied to samples.py/utils.py by the exhaustive grid (model verdict must agree with the implementation grid) - a divergence on a single point breaks the correspondence; numpy/torch/jax asarray semantics enter as the probed oracle std_oracle. Proposal outputs consumed in any namespace are exercised by the sampler runs, not modelled.",
  ref="DESIGN.md section 5 C15"),
})

CHECKS.update({
 "C16": dict(technique="Coq proof: generated __getitem__ of the three classes = the same struct-of-arrays selection of every field (weights included, evidence carried); refinement of any select/pickle/dict operation sequence to one selection of the plain list-of-rows reference; partition/concatenate restores every field; random op sequences on real objects compared exactly and through the model (vm_compute)",
  text="Theorems: (bridge) the regenerated __getitem__ of BaseSamples/Samples/SMCSamples returns select idx of x, every log-density, log_w and weights, and carries beta/evidence; row j of a selection is row idx_j of the source in all fields at once for index arrays, masks and slices; concatenating the pieces [0,k)++[k,n) restores all per-sample fields; any finite sequence of select/pickle/dict operations equals ONE selection of the source rows (induction over the op list). Pickle/dict are the identity in the model - their tie is the differential check on real pickles/dicts in three namespaces and two widths.",
  note="Trusted: Coq kernel; tools/translate.py (symbolic execution of __getitem__, with Samples.__post_init__ summarised as compute_weights); numpy/torch/jax indexing semantics as modelled by Lib/Soa.v (masks, slices); pickle and dict round trips are modelled as the identity and only differentially tested.",
  ref="DESIGN.md section 5 C16"),
})

CHECKS.update({
 "C04": dict(technique="Coq proof (Coquelicot is_derive for every coordinate map, list induction for rows, induction over the stage list for the composite) about the transform definitions regenerated from transforms.py; numeric differential + finite differences on the implementation",
  text="(Binary64: the half-open range of the periodic wrap is REFUTED on a PrimFloat model tied bit for bit to PeriodicTransform.forward - theorem C04_periodic_range_binary64_refuted, known finding.) 28 theorems about the regenerated periodic / logit / probit / affine definitions: round trips in both directions (outside the documented clip margin), reported forward log-Jacobian = sum of ln|f_i'(x_i)| with the derivative witnessed by is_derive, inverse log-Jacobian = - forward, wrap into [lower,upper) modulo the period with zero log-Jacobian, inverse image strictly inside the bounds, fit = forward; composite of any on/off combination by induction over stages, with the stage order read from the code. The differential evaluates the same IR in mpmath against numpy/torch/jax in both widths over bounds spanning 1e-8..1e8 and checks log-Jacobians by central finite differences.",
  note="Trusted: Coq kernel; Reals/Coquelicot axioms (sig_forall_dec, sig_not_dec, functional_extensionality_dep, classic); tools/translate.py; erf/erfinv enter the probit theorems as Section hypotheses (mutual inverses, derivative of erfinv) - scipy.special is trusted for them; ln|det| of a coordinatewise map is taken to be the sum of ln|f_i'|; binary rounding is outside the exact-real theorems (known finding F5 lives there); FlowPreconditioningTransform's learned map is not modelled.",
  ref="DESIGN.md section 5 C04"),
 "C19": dict(technique="Coq proof by structural induction over programs of a small language with exceptions modelling the two context managers; exhaustive-to-depth and random programs executed on a real Aspire instance and through the model (vm_compute)",
  text="Theorems: for EVERY program (any nesting depth, exception at any position) log_likelihood and log_prior are afterwards the original objects; leaving auto_checkpoint restores the defaults attribute exactly (including absence); the pool is closed exactly when asked, after the body, and exceptions propagate unchanged. The check runs every nesting to depth 2/3 and random programs to depth 5 on real instances with fake pools, comparing identity of attributes, close logs, outcome and the defaults' saved flags with the model.",
  note="Trusted: Coq kernel (no axioms); the hand model Model/Contexts.v is tied to utils.PoolHandler / Aspire.auto_checkpoint / the defaults bookkeeping of sample_posterior by running the same programs on both; functools.partial wrappers compared by identity; FakePool stands in for multiprocessing.Pool.",
  ref="DESIGN.md section 5 C19"),
 "C20": dict(technique="finite-domain Coq theorem over sampler class x way-of-supplying-a-generator, using constructor/sample signatures regenerated from the class definitions; sentinel generators on the implementation; bit-identical rerun search for samplers and both flow back-ends",
  text="Theorem (partial, finite domain): for MiniPCN, MiniPCNSMC, EmceeSMC and BlackJAXSMC a generator given to the top-level call is the effective source and through every way it is either used or rejected loudly; the full statement is refuted for Emcee (accepted, never used) - a known finding. The check supplies a draw-counting generator through each way to each class and compares with the model, and reruns every sampler and both flows with equal seeds (different global RNG states) demanding bit-identical outputs.",
  note="Trusted: Coq kernel + vm_compute; signatures come from the translator (AST of the class definitions), the per-class prologue (what sample() does with the generator) is hand-modelled and tied by the sentinel experiment; bit-reproducibility of torch/jax/numpy for equal seeds is trusted; BlackJAXSMC.sample cannot run here (blackjax absent) - its routing is observed on the constructed sampler; emcee's own generator is outside aspire.",
  ref="DESIGN.md section 5 C20"),
})

CHECKS.update({
 "C14": dict(technique="Coq proof by induction over operation lists of a state-machine model of (instance x file) under fit / sample / auto_checkpoint / resume_from_file: invariant proved under an explicit per-step guard, refuted without it (vm_compute witnesses); every script is run on a real Aspire and the file read back after every operation",
  text="Theorems: C14_invariant_partial - for every history whose steps satisfy the guard (a fit touches the file only while it holds no checkpoint; a checkpointing sampler rewrites or matches the configuration and the file's flow is or becomes the one its particles are weighted under; a non-checkpointing sampler does not rewrite the configuration of a file holding a checkpoint) the stored flow is the one the stored checkpoint was weighted under and the configuration names its sampler; C14_invariant_refuted - four minimal unguarded histories break it. The model is compared with the real file after EVERY operation of exhaustive (length<=3/4) and random (length<=8) scripts; the refuting histories are reproduced on the implementation and listed as known findings.",
  note="Trusted: Coq kernel (no axioms); the hand model Model/FileSM.v is tied to aspire.py by the per-operation file comparison (flow tag, sampler_type, checkpoint sampler, and the flow the checkpoint's stored log_q matches); FakeFlow registered as external backend; stub kernels. The unguarded property is FALSE of the code: 7 known findings.",
  ref="DESIGN.md section 5 C14"),
})

CHECKS.update({
 "C13": dict(technique="Coq proof (custom induction over the nested value tree, insert/lookup algebra, permutation argument) of the HDF5 dictionary codec model: save/load round trip is structurally the canonical form, order-independent, dataset names split back; random trees, sample sets, histories, transforms, flows and rebuilt configurations through real HDF5 files",
  text="Theorems: load (save kvs) = canon kvs for every well-formed configuration dictionary (distinct dot-free keys, strings other than the two markers), hence equal under every path lookup; decode(encode leaf) = canon leaf; any dataset order (h5py sorts by name) gives the same observations; join/split of dotted dataset names is the identity; canon idempotent. Everything aspire saves goes through this codec; the object-level round trips (3 sample classes x 3 namespaces x 2 widths x fields x layouts, SMC/flow histories, 7 transform classes, zuko/flowjax flows with options, configurations rebuilt by resume_from_file) are executed on real files every run and the codec model is compared leaf by leaf with what h5py returns.",
  note="Trusted: Coq kernel (these theorems are closed under the global context - no axioms); the hand model Model/Codec.v is tied to utils.py by the leaf-by-leaf comparison on random trees; h5py's coercions are modelled (decode/canon), 0-d arrays and mixed-type lists are outside wf; object-level round trips (samples, histories, transforms, flows, config) are decided by differential testing, not by theorems.",
  ref="DESIGN.md section 5 C13"),
 "C03": dict(technique="Coq proof about log_prob / sample_and_log_prob of both flow back-ends regenerated from the source (abstract base density, data transform satisfying C04); sample-vs-eval agreement, bounds and quadrature of exp(log_prob) on real zuko / flowjax flows",
  text="Theorems (partial by nature): log_prob(x) = base(T x) + log|det dT/dx| row by row in both back-ends; the log-density returned with drawn samples equals log_prob evaluated at those samples whenever the data transform round-trips with negated log-Jacobian (C04). Normalisation itself needs a change of variables for the external flow's density and multivariate integration (not available): in ONE coordinate the data-transform layer is proved to preserve the mass of every interval (substitution rule, Coquelicot RInt_comp; instantiated for the logit and affine coordinate maps of C04), otherwise it is checked by graded trapezoid quadrature in 1-2 dims on untrained / trained / reloaded flows, accounting for the mass inside the documented clip margin.",
  note="Trusted: Coq kernel; Reals axioms; tools/translate.py; zuko / flowjax provide a normalised base density and return it consistently with their samples (Section variables); normalisation in d>2 is not checked; samples inside the clip margin (u within 4e-6 of a bound) are excluded as in C04.",
  ref="DESIGN.md section 5 C03"),
 "C01": dict(technique="Coq proofs of the estimator identities on finite spaces (unbiasedness of the importance evidence estimate over n i.i.d. draws, telescoping of the tempering path, target handed to the kernels under any preconditioning) + replicated statistical runs on analytic targets",
  text="Theorems (partial by nature - no measure theory library, external kernels' convergence cannot be modelled): E over n i.i.d. proposal draws of the mean importance weight = sum_x L(x) pi(x) for any proposal positive on the support; the log-ratios of any temperature ladder telescope to ln Z_T - ln Z_0 (with C08: the SMC loop sums exactly those ratios); under the tempered distribution at b0 the mean incremental weight exp((b1-b0)(log L + log pi - log q)) is Z_b1/Z_b0, so for ANY ladder from 0 to 1 the exact log mean incremental weights add up to the log-evidence; the kernel target is the tempered posterior plus the inverse map's log-Jacobian for any preconditioning (C05). The search runs importance / MiniPCN-SMC / Emcee-SMC with every preconditioning option on a Gaussian in a box, a Gaussian hugging a bound and a von-Mises target on a circle, and requires replicate-averaged Z_hat/Z and posterior moments within 6 standard errors (+ stated allowances) of the closed forms.",
  note="Trusted: Coq kernel; Reals axioms + functional extensionality; the statistical part is support, not proof: stub random-walk kernels stand in for minipcn / emcee (not installable), so the external kernels' own mixing is not exercised; allowances 0.05 (log Z), 0.08 sigma (mean), 25% (variance).",
  ref="DESIGN.md section 5 C01"),
})

PENDING_REASON = "check not built yet in this round (planned: DESIGN.md section 5); no claim is made"


def main():
    props = [json.loads(l) for l in (V / "properties.jsonl").read_text().splitlines() if l.strip()]
    checks, na = [], []
    for p in props:
        pid = p["id"]
        c = CHECKS.get(pid)
        if not c:
            na.append({"property_id": pid, "reason": PENDING_REASON})
            continue
        checks.append({
            "property_id": pid,
            "quick_cmd": f"./check {pid} --tier quick",
            "thorough_cmd": f"./check {pid} --tier thorough",
            "evidence_file": f"/verif/evidence/{pid}.json",
            "replay_cmd_template": f"./check {pid} --replay {{path}}",
            "engine": "coq-proof",
            "level_claimed": {"category": "proof", "text": c["text"], "design_ref": c["ref"]},
            "level_note": c["note"],
            "technique": c["technique"],
        })
    man = {
        "version": 1,
        "setup_cmd": "./check setup",
        "hooks": {"guard": "ASPIRE_VERIF", "enable": "no source hooks are needed: checks observe aspire from outside (wrapped user callables, spy generators, checkpoint callbacks, HDF5 files); ASPIRE_VERIF=1 is exported by ./check but read by nothing in /repo",
                  "baseline_off_cmd": "cd /repo && /venv/bin/python -m pytest -ra -q -p no:cacheprovider --timeout=900 --continue-on-collection-errors",
                  "source_commits": [], "add_only": True},
        "engines": [{"name": "coq-proof", "path": "/verif/coq", "serves_properties": [c["property_id"] for c in checks],
                     "kind_free_text": "Coq 8.16 development (Lib/ Gen/ Model/ Proofs/ Props/) + Python harness (translator, correspondence via vm_compute, implementation search)"}],
        "checks": checks,
        "not_applicable": na,
        "notes": "Every check = translator regeneration + full .vo build of Props/<id>.v + correspondence + implementation search; see DESIGN.md. fix: commits in /repo are listed in known_findings.json as status=fixed.",
    }
    (V / "MANIFEST.json").write_text(json.dumps(man, indent=1))
    print("checks:", [c["property_id"] for c in checks], "pending:", len(na))


if __name__ == "__main__":
    main()
