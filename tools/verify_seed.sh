#!/bin/bash
# tools/verify_seed.sh seeded/<id>      — confirms a seeded change the way the protocol asks, in a scratch worktree of /repo:
#   1. its demonstration passes (exit 0) on the unchanged tree,  2. fails (exit != 0) with the patch applied,
#   3. the pinned test suite still has exactly the baseline's passing set with the patch applied.
# Prints one summary line; NOTESTS=1 skips step 3.
d=$(readlink -f "$1"); id=$(basename "$d")
wt=/tmp/vs-$id-$$
git -C /repo worktree add --detach "$wt" HEAD >/dev/null 2>&1 || { echo "$id worktree-failed"; exit 2; }
run_demo() { (cd "$wt" && PYTHONPATH="$wt/src" PYTHONHASHSEED=0 JAX_PLATFORMS=cpu timeout 1800 /venv/bin/python -W ignore "$d/demo.py" > "/tmp/vs-$id-$1.out" 2>&1; echo $?); }
clean=$(run_demo clean)
git -C "$wt" apply "$d/patch.diff" || { echo "$id patch-does-not-apply"; git -C /repo worktree remove --force "$wt"; exit 2; }
mut=$(run_demo mutant)
tests="skipped"
if [ -z "${NOTESTS:-}" ]; then
  (cd "$wt" && OMP_NUM_THREADS=2 MKL_NUM_THREADS=2 OPENBLAS_NUM_THREADS=2 PYTHONPATH="$wt/src" timeout 3000 /venv/bin/python -m pytest -q -p no:cacheprovider --timeout=900 --continue-on-collection-errors -n 5 --junitxml=/tmp/vs-$id-junit.xml >/dev/null 2>&1)
  tests=$(python3 /verif/tools/check_baseline.py /tmp/vs-$id-junit.xml 2>&1 | tail -1)
  rm -f /tmp/vs-$id-junit.xml
fi
echo "$id demo_clean_exit=$clean demo_mutant_exit=$mut tests: $tests :: $(tail -1 /tmp/vs-$id-mutant.out | cut -c1-160)"
rm -f /tmp/vs-$id-clean.out /tmp/vs-$id-mutant.out
git -C /repo worktree remove --force "$wt"
