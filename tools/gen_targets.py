"""Target table for tools/translate.py: which functions of /repo/src/aspire are translated, what their
free names stand for, and which generated file each definition goes to."""
from translate import (N, Abs, NoneV, Obj, Opaque, S, Untranslatable, V, emit_defs, var, RTABLE, XTABLE, HEADER, XHEADER)
import json
import traceback


def kernels_targets():
    smc_self = lambda: {"log_likelihood": V("ll"), "log_prior": V("lp"), "log_q": V("lq"), "beta": S("beta0"),
                        "x": var("x", "XV")}
    smc_in = [("x", "XV"), ("ll", "V"), ("lp", "V"), ("lq", "V"), ("beta0", "S")]
    s_self = lambda: {"log_likelihood": V("ll"), "log_prior": V("lp"), "log_q": V("lq"), "x": var("x", "XV")}
    s_in = [("x", "XV"), ("ll", "V"), ("lp", "V"), ("lq", "V")]
    T = []
    T.append(dict(name="logsumexp", module="utils", func="logsumexp", inputs=[("x", "V")],
                  params={"x": V("x"), "axis": NoneV()}, outputs={"": "return"},
                  register=("logsumexp", ["x"], [("", "S")])))
    T.append(dict(name="effective_sample_size", module="utils", func="effective_sample_size",
                  inputs=[("log_w", "V")], params={"log_w": V("log_w")}, outputs={"": "return"},
                  register=("effective_sample_size", ["log_w"], [("", "S")])))
    T.append(dict(name="logit", module="utils", func="logit", inputs=[("x", "V"), ("eps", "S")],
                  params={"x": V("x"), "eps": S("eps")}, outputs={"y": "return[0]", "logj": "return[1]"},
                  register=("logit", ["x", "eps"], [("_y", "V"), ("_logj", "S")])))
    T.append(dict(name="sigmoid", module="utils", func="sigmoid", inputs=[("x", "V")],
                  params={"x": V("x")}, outputs={"y": "return[0]", "logj": "return[1]"},
                  register=("sigmoid", ["x"], [("_y", "V"), ("_logj", "S")])))
    T.append(dict(name="compute_weights", module="samples", cls="Samples", func="compute_weights", inputs=s_in,
                  self=s_self(), params={},
                  outputs={"log_w": "self.log_w", "log_evidence": "self.log_evidence", "weights": "self.weights",
                           "evidence": "self.evidence", "evidence_error": "self.evidence_error",
                           "log_evidence_error": "self.log_evidence_error", "ess": "self.effective_sample_size"}))
    T.append(dict(name="scaled_weights", module="samples", cls="Samples", func="scaled_weights",
                  inputs=[("log_w", "V")], self={"log_w": V("log_w")}, params={}, outputs={"": "return"}))
    T.append(dict(name="rejection_accept", module="samples", cls="Samples", func="rejection_sample",
                  inputs=[("log_w", "V"), ("u", "V")],
                  self={"log_w": V("log_w"), "x": var("x", "XV"), "device": Opaque("device")},
                  params={"rng": Opaque("rng")}, overrides={"rng.uniform": V("u")},
                  flags={"ignore_return": True}, outputs={"": "accept"}))
    T.append(dict(name="log_p_t", module="samples", cls="SMCSamples", func="log_p_t",
                  inputs=smc_in + [("beta", "S")], self=smc_self(), params={"beta": S("beta")},
                  outputs={"": "return"}))
    T.append(dict(name="unnormalized_log_weights", module="samples", cls="SMCSamples",
                  func="unnormalized_log_weights", inputs=smc_in + [("beta", "S")], self=smc_self(),
                  params={"beta": S("beta")}, outputs={"": "return"}))
    T.append(dict(name="log_evidence_ratio", module="samples", cls="SMCSamples", func="log_evidence_ratio",
                  inputs=smc_in + [("beta", "S")], self=smc_self(), params={"beta": S("beta")},
                  outputs={"": "return"}))
    T.append(dict(name="log_evidence_ratio_variance", module="samples", cls="SMCSamples",
                  func="log_evidence_ratio_variance", inputs=smc_in + [("beta", "S")], self=smc_self(),
                  params={"beta": S("beta")}, outputs={"": "return"}))
    T.append(dict(name="log_weights", module="samples", cls="SMCSamples", func="log_weights",
                  inputs=smc_in + [("beta", "S")], self=smc_self(), params={"beta": S("beta")},
                  outputs={"": "return"}))
    T.append(dict(name="resample_probs", module="samples", cls="SMCSamples", func="resample",
                  inputs=smc_in + [("beta", "S")], self=smc_self(),
                  params={"beta": S("beta"), "n_samples": NoneV(), "rng": Opaque("rng")},
                  overrides={"rng.choice": Opaque("idx")},
                  flags={"ignore_return": True, "assume": {"beta == self.beta and n_samples is None": False}},
                  outputs={"": "w"}))
    from translate import Tup
    T.append(dict(name="current_target_efficiency_adaptive", module="samplers.smc.base", cls="SMCSampler",
                  func="current_target_efficiency", inputs=[("e0", "S"), ("e1", "S"), ("rate", "S"), ("beta", "S")],
                  self={"_adapative_target_efficiency": True, "_target_efficiency": Tup([S("e0"), S("e1")]),
                        "target_efficiency_rate": S("rate")},
                  params={"beta": S("beta")}, outputs={"": "return"}))
    T.append(dict(name="current_target_efficiency_scalar", module="samplers.smc.base", cls="SMCSampler",
                  func="current_target_efficiency", inputs=[("e", "S"), ("beta", "S")],
                  self={"_adapative_target_efficiency": False, "_target_efficiency": S("e")},
                  params={"beta": S("beta")}, outputs={"": "return"}))
    return T


def run_targets(tr, targets, table, status, irall, meta):
    chunks = []
    for spec in targets:
        name = spec["name"]
        try:
            ex, outs = tr.translate(spec)
            text, ir = emit_defs(name, spec["inputs"], ex, outs, table)
            chunks.append(f"(* ---- {spec['module']}.{(spec.get('cls') + '.') if spec.get('cls') else ''}{spec['func']}"
                          f"{'  guards(raise if): ' + '; '.join(ex.guards) if ex.guards else ''}"
                          f"{'  assumed: ' + repr(ex.assumed) if ex.assumed else ''} *)\n" + text)
            irall.update(ir)
            meta[name] = {"guards": ex.guards, "assumed": ex.assumed, "events": ex.events}
            if spec.get("register"):
                fn, params, outsig = spec["register"]
                tr.gen_funcs[fn] = {"params": params, "outs": outsig}
            status[name] = (True, "")
        except Untranslatable as e:
            status[name] = (False, f"Untranslatable: {e}")
        except Exception:
            status[name] = (False, traceback.format_exc()[-1500:])
    return "\n".join(chunks)


def build(tr, status):
    files = {}
    irall, meta = {}, {}
    body = run_targets(tr, kernels_targets(), RTABLE, status, irall, meta)
    files["Kernels.v"] = HEADER + "\n" + body
    files["kernels_ir.json"] = json.dumps({"ir": irall, "meta": meta}, indent=0, default=str)
    return files
