"""Target table for tools/translate.py: which functions of /repo/src/aspire are translated, what their
free names stand for, and which generated file each definition goes to."""
from translate import (ModV, N, Abs, NoneV, Obj, Opaque, S, Tup, Untranslatable, V, emit_defs, emit_calls, var, RTABLE, XTABLE, HEADER, XHEADER)
import json
import traceback


def kernels_targets():
    smc_self = lambda: {"log_likelihood": V("ll"), "log_prior": V("lp"), "log_q": V("lq"), "beta": S("beta0"),
                        "x": var("x", "XV")}
    smc_in = [("x", "XV"), ("ll", "V"), ("lp", "V"), ("lq", "V"), ("beta0", "S")]
    s_self = lambda: {"log_likelihood": V("ll"), "log_prior": V("lp"), "log_q": V("lq"), "x": var("x", "XV")}
    s_in = [("x", "XV"), ("ll", "V"), ("lp", "V"), ("lq", "V")]
    T = []
    T.append(dict(name="logsumexp", module="utils", func="logsumexp", inputs=[("x", "V")],
                  params={"x": V("x"), "axis": NoneV()}, outputs={"": "return"},
                  register=("logsumexp", ["x"], [("", "S")])))
    T.append(dict(name="effective_sample_size", module="utils", func="effective_sample_size",
                  inputs=[("log_w", "V")], params={"log_w": V("log_w")}, outputs={"": "return"},
                  register=("effective_sample_size", ["log_w"], [("", "S")])))
    T.append(dict(name="logit", module="utils", func="logit", inputs=[("x", "V"), ("eps", "S")],
                  params={"x": V("x"), "eps": S("eps")}, outputs={"y": "return[0]", "logj": "return[1]"},
                  register=("logit", ["x", "eps"], [("_y", "V"), ("_logj", "S")])))
    T.append(dict(name="sigmoid", module="utils", func="sigmoid", inputs=[("x", "V")],
                  params={"x": V("x")}, outputs={"y": "return[0]", "logj": "return[1]"},
                  register=("sigmoid", ["x"], [("_y", "V"), ("_logj", "S")])))
    T.append(dict(name="compute_weights", module="samples", cls="Samples", func="compute_weights", inputs=s_in,
                  self=s_self(), params={},
                  outputs={"log_w": "self.log_w", "log_evidence": "self.log_evidence", "weights": "self.weights",
                           "evidence": "self.evidence", "evidence_error": "self.evidence_error",
                           "log_evidence_error": "self.log_evidence_error", "ess": "self.effective_sample_size"}))
    T.append(dict(name="scaled_weights", module="samples", cls="Samples", func="scaled_weights",
                  inputs=[("log_w", "V")], self={"log_w": V("log_w")}, params={}, outputs={"": "return"}))
    T.append(dict(name="rejection_accept", module="samples", cls="Samples", func="rejection_sample",
                  inputs=[("log_w", "V"), ("u", "V")],
                  self={"log_w": V("log_w"), "x": var("x", "XV"), "device": Opaque("device")},
                  params={"rng": Opaque("rng")}, overrides={"rng.uniform": V("u")},
                  flags={"ignore_return": True}, outputs={"": "accept"}))
    T.append(dict(name="log_p_t", module="samples", cls="SMCSamples", func="log_p_t",
                  inputs=smc_in + [("beta", "S")], self=smc_self(), params={"beta": S("beta")},
                  outputs={"": "return"}))
    T.append(dict(name="unnormalized_log_weights", module="samples", cls="SMCSamples",
                  func="unnormalized_log_weights", inputs=smc_in + [("beta", "S")], self=smc_self(),
                  params={"beta": S("beta")}, outputs={"": "return"}))
    T.append(dict(name="log_evidence_ratio", module="samples", cls="SMCSamples", func="log_evidence_ratio",
                  inputs=smc_in + [("beta", "S")], self=smc_self(), params={"beta": S("beta")},
                  outputs={"": "return"}))
    T.append(dict(name="log_evidence_ratio_variance", module="samples", cls="SMCSamples",
                  func="log_evidence_ratio_variance", inputs=smc_in + [("beta", "S")], self=smc_self(),
                  params={"beta": S("beta")}, outputs={"": "return"}))
    T.append(dict(name="log_weights", module="samples", cls="SMCSamples", func="log_weights",
                  inputs=smc_in + [("beta", "S")], self=smc_self(), params={"beta": S("beta")},
                  outputs={"": "return"}))
    T.append(dict(name="resample_probs", module="samples", cls="SMCSamples", func="resample",
                  inputs=smc_in + [("beta", "S")], self=smc_self(),
                  params={"beta": S("beta"), "n_samples": NoneV(), "rng": Opaque("rng")},
                  overrides={"rng.choice": Opaque("idx")},
                  flags={"ignore_return": True, "assume": {"beta == self.beta and n_samples is None": False}},
                  outputs={"": "w"}))
    from translate import Tup
    T.append(dict(name="current_target_efficiency_adaptive", module="samplers.smc.base", cls="SMCSampler",
                  func="current_target_efficiency", inputs=[("e0", "S"), ("e1", "S"), ("rate", "S"), ("beta", "S")],
                  self={"_adapative_target_efficiency": True, "_target_efficiency": Tup([S("e0"), S("e1")]),
                        "target_efficiency_rate": S("rate")},
                  params={"beta": S("beta")}, outputs={"": "return"}))
    T.append(dict(name="current_target_efficiency_scalar", module="samplers.smc.base", cls="SMCSampler",
                  func="current_target_efficiency", inputs=[("e", "S"), ("beta", "S")],
                  self={"_adapative_target_efficiency": False, "_target_efficiency": S("e")},
                  params={"beta": S("beta")}, outputs={"": "return"}))
    return T


def kernelsx_targets():
    """The weight kernels once more, over XR (reals + NaN / +-inf with the IEEE rules): what happens to rows equal to -inf."""
    s_self = lambda: {"log_likelihood": V("ll"), "log_prior": V("lp"), "log_q": V("lq"), "x": var("x", "XV")}
    s_in = [("x", "XV"), ("ll", "V"), ("lp", "V"), ("lq", "V")]
    T = []
    T.append(dict(name="xlogsumexp", module="utils", func="logsumexp", inputs=[("x", "V")],
                  params={"x": V("x"), "axis": NoneV()}, outputs={"": "return"},
                  register=("logsumexp", ["x"], [("", "S")], "xlogsumexp")))
    T.append(dict(name="xeffective_sample_size", module="utils", func="effective_sample_size",
                  inputs=[("log_w", "V")], params={"log_w": V("log_w")}, outputs={"": "return"}))
    T.append(dict(name="xcompute_weights", module="samples", cls="Samples", func="compute_weights", inputs=s_in,
                  self=s_self(), params={},
                  outputs={"log_w": "self.log_w", "log_evidence": "self.log_evidence", "ess": "self.effective_sample_size"}))
    return T


CALLS_HEADER = XHEADER + """
Section Calls.
  Context {X Z : Type}.
  (* the user's log-likelihood and log-prior, the proposal's log-density, and the preconditioning
     transform's inverse (point and log|det dx/dz|) — arbitrary *)
  Variables (L Pi Q : X -> XR).
  Variables (Tinv_pt : Z -> X) (Tinv_lj : Z -> XR).
"""


def calls_targets():
    def sampler_self():
        return {"_log_likelihood": Abs("L"), "log_prior": Abs("Pi"), "dtype": Opaque("dtype"), "parameters": Opaque("parameters"),
                "n_likelihood_evaluations": S("nle0"), "dims": Opaque("dims"), "sampler_kwargs": Opaque("kw"),
                "history": Opaque("history"), "rng": Opaque("rng"), "emcee_moves": Opaque("moves")}
    inv = {"self.preconditioning_transform.inverse": Abs("Tinv", shape="pair"), "self.prior_flow.log_prob": Abs("Q")}
    T = []
    T.append(dict(name="smc_log_prob", module="samplers.smc.base", cls="SMCSampler", func="log_prob",
                  inputs=[("z", "ZV"), ("beta", "S"), ("nle0", "S")], self=sampler_self(),
                  params={"z": var("z", "ZV"), "beta": S("beta")}, overrides=dict(inv),
                  outputs={"value": "return", "count": "self.n_likelihood_evaluations"}, calls=True))
    T.append(dict(name="mcmc_log_prob", module="samplers.mcmc", cls="MCMCSampler", func="log_prob",
                  inputs=[("z", "ZV"), ("nle0", "S")], self=sampler_self(),
                  params={"z": var("z", "ZV")}, overrides=dict(inv),
                  outputs={"value": "return", "count": "self.n_likelihood_evaluations"}, calls=True))
    T.append(dict(name="blackjax_log_prob", module="samplers.smc.blackjax", cls="BlackJAXSMC", func="log_prob",
                  inputs=[("z", "ZV"), ("beta", "S"), ("nle0", "S")], self=sampler_self(),
                  params={"x": var("z", "ZV"), "beta": S("beta")}, overrides=dict(inv),
                  flags={"assume": {"hasattr(x, '__array__')": True}},
                  outputs={"value": "return", "count": "self.n_likelihood_evaluations"}, calls=True))
    mut_over = dict(inv)
    mut_over.update({"partial": Opaque("partial"), "Sampler": Opaque("kernel"), "self.fit_preconditioning_transform": Opaque("fit"),
                     "sampler.sample": Tup([Opaque("chain"), Opaque("hist")]), "chain[-1]": var("znew", "ZV"),
                     "self.history.mcmc_acceptance.append": Opaque("append")})
    particles = lambda: Obj("SMCSamples", {"x": var("px", "XV"), "log_likelihood": V("pll"), "log_prior": V("plp"),
                                            "log_q": V("plq"), "beta": S("pbeta")})
    outs = {"x": "return.x", "log_q": "return.log_q", "log_prior": "return.log_prior",
            "log_likelihood": "return.log_likelihood", "beta": "return.beta", "count": "self.n_likelihood_evaluations"}
    T.append(dict(name="minipcn_mutate", module="samplers.smc.minipcn", cls="MiniPCNSMC", func="mutate",
                  inputs=[("znew", "ZV"), ("beta", "S"), ("nle0", "S")], self=sampler_self(),
                  params={"particles": particles(), "beta": S("beta"), "n_steps": NoneV()}, overrides=mut_over,
                  outputs=outs, calls=True))
    em_over = dict(inv)
    em_over.update({"emcee.EnsembleSampler": Opaque("kernel"), "self.fit_preconditioning_transform": Opaque("fit"),
                    "copy.deepcopy": Opaque("kwargs"), "sampler.run_mcmc": Opaque("run"),
                    "self.history.mcmc_acceptance.append": Opaque("append"), "self.history.mcmc_autocorr.append": Opaque("append"),
                    "sampler.get_chain(flat=False)[-1, ...]": var("znew", "ZV")})
    T.append(dict(name="emcee_mutate", module="samplers.smc.emcee", cls="EmceeSMC", func="mutate",
                  inputs=[("znew", "ZV"), ("beta", "S"), ("nle0", "S")], self=sampler_self(),
                  params={"particles": particles(), "beta": S("beta"), "n_steps": NoneV()}, overrides=em_over,
                  outputs=outs, calls=True))
    T.append(dict(name="importance_sample", module="samplers.importance", cls="ImportanceSampler", func="sample",
                  inputs=[("x", "XV"), ("lq", "V"), ("nle0", "S")], self=sampler_self(),
                  params={"n_samples": Opaque("n")},
                  overrides={"self.prior_flow.sample_and_log_prob": Tup([var("x", "XV"), V("lq")])},
                  outputs={"x": "return.x", "log_q": "return.log_q", "log_prior": "return.log_prior",
                           "log_likelihood": "return.log_likelihood", "log_w": "return.log_w",
                           "count": "self.n_likelihood_evaluations"}, calls=True))
    T.append(dict(name="convert_to_samples", module="aspire", cls="Aspire", func="convert_to_samples",
                  inputs=[("x", "XV"), ("lq", "V")],
                  self={"log_likelihood": Abs("L"), "log_prior": Abs("Pi"), "parameters": Opaque("p"), "dtype": Opaque("d")},
                  params={"x": var("x", "XV"), "log_likelihood": NoneV(), "log_prior": NoneV(), "log_q": V("lq"),
                          "evaluate": True, "xp": Opaque("xp")},
                  outputs={"log_prior": "return.log_prior", "log_likelihood": "return.log_likelihood", "log_w": "return.log_w"},
                  calls=True))
    return T


def run_calls(tr, targets, status, irall, meta):
    chunks = []
    for spec in targets:
        name = spec["name"]
        try:
            ex, outs = tr.translate(spec)
            text, ir = emit_defs(name, spec["inputs"], ex, outs, XTABLE, section_types=True)
            text += "\n" + emit_calls(name, spec["inputs"], ex, XTABLE)
            chunks.append(f"(* ---- {spec['module']}.{spec.get('cls')}.{spec['func']}"
                          f"{'  guards(raise if): ' + '; '.join(ex.guards) if ex.guards else ''} *)\n" + text)
            irall.update(ir)
            meta[name] = {"guards": ex.guards, "n_events": len(ex.events)}
            status[name] = (True, "")
        except Untranslatable as e:
            status[name] = (False, f"Untranslatable: {e}")
        except Exception:
            status[name] = (False, traceback.format_exc()[-1500:])
    return "\n".join(chunks)


ROUTING_CLASSES = [("ImportanceSampler", "samplers.importance"), ("MiniPCN", "samplers.mcmc"), ("Emcee", "samplers.mcmc"),
                   ("MiniPCNSMC", "samplers.smc.minipcn"), ("EmceeSMC", "samplers.smc.emcee"), ("BlackJAXSMC", "samplers.smc.blackjax")]


def routing_file(tr, status):
    """Constructor / sample() parameter names of every sampler class, read from the class definitions (MRO order)."""
    import ast
    lines = ["(* GENERATED on every run by /verif/tools/translate.py from the sampler class definitions in /repo/src/aspire. Do not edit. *)",
             "From Coq Require Import List String.", "Import ListNotations.", "Open Scope string_scope.", "",
             "Inductive sclass := " + " | ".join("C" + c for c, _ in ROUTING_CLASSES) + ".", ""]
    init_rows, sample_rows, kw_rows = [], [], []
    ok = True
    detail = ""
    for cname, module in ROUTING_CLASSES:
        try:
            mi = tr.find_method(module, cname, "__init__")
            ms = tr.find_method(module, cname, "sample")
            if mi is None or ms is None:
                raise Untranslatable(f"{cname}: __init__ or sample not found")
            pi = [a.arg for a in mi[1].args.args][1:] + [a.arg for a in mi[1].args.kwonlyargs]
            ps = [a.arg for a in ms[1].args.args][1:] + [a.arg for a in ms[1].args.kwonlyargs]
            init_rows.append(f"  | C{cname} => [" + "; ".join(f'"{p}"' for p in pi) + "]")
            sample_rows.append(f"  | C{cname} => [" + "; ".join(f'"{p}"' for p in ps) + "]")
            kw_rows.append(f"  | C{cname} => {'true' if ms[1].args.kwarg is not None else 'false'}")
        except Exception as e:
            ok = False
            detail += f"{cname}: {e!r}; "
    lines += ["Definition sig_init (c : sclass) : list string :=", "  match c with"] + init_rows + ["  end.", ""]
    lines += ["Definition sig_sample (c : sclass) : list string :=", "  match c with"] + sample_rows + ["  end.", ""]
    lines += ["Definition sample_has_var_kwargs (c : sclass) : bool :=", "  match c with"] + kw_rows + ["  end.", ""]
    status["routing_signatures"] = (ok, detail)
    return "\n".join(lines) + "\n" if ok else "(* signature extraction failed: " + detail + " *)\n"


def composite_file(tr, status):
    """Stage order of CompositeTransform.forward / inverse / fit and the way the stage log-Jacobians are accumulated,
    read from the method bodies."""
    import ast
    names = {"_periodic_transform": "SPeriodic", "_bounded_transform": "SBounded", "_affine_transform": "SAffine"}
    out = {}
    ok, detail = True, ""
    try:
        for meth in ("forward", "inverse", "fit"):
            m = tr.find_method("transforms", "CompositeTransform", meth)
            order, accum = [], []
            for node in ast.walk(m[1]):
                pass
            for st in m[1].body:
                for node in ast.walk(st):
                    # the stage method, called directly or handed (as a bound method) to a helper of the class that applies it
                    # to the masked columns; what such a helper does is covered by the search, not by this extraction
                    if isinstance(node, ast.Attribute) and node.attr == meth \
                            and isinstance(node.value, ast.Attribute) and node.value.attr in names \
                            and isinstance(node.value.value, ast.Name) and node.value.value.id == "self":
                        order.append((node.lineno, node.col_offset, names[node.value.attr]))
                    if isinstance(node, ast.AugAssign) and isinstance(node.target, ast.Name) and node.target.id == "log_abs_det_jacobian":
                        accum.append(isinstance(node.op, ast.Add))
            order = [n for _, _, n in sorted(order)]
            if sorted(order) != sorted(names.values()):
                raise Untranslatable(f"CompositeTransform.{meth}: stages found {order}")
            if meth != "fit" and (len(accum) != 3 or not all(accum)):
                raise Untranslatable(f"CompositeTransform.{meth}: log-Jacobian accumulation is not three `+=`")
            out[meth] = order
    except Exception as e:
        ok, detail = False, repr(e)
    status["composite_order"] = (ok, detail)
    # the single random draw of SMCSamples.resample: rng.choice(len(self.x), size=n_samples, replace=True, p=w)
    rs_ok, rs_detail, rs_text = True, "", ""
    try:
        m = tr.find_method("samples", "SMCSamples", "resample")
        calls = [n for n in ast.walk(m[1]) if isinstance(n, ast.Call) and isinstance(n.func, ast.Attribute) and n.func.attr == "choice"
                 and isinstance(n.func.value, ast.Name) and n.func.value.id == "rng"]
        if len(calls) != 1:
            raise Untranslatable(f"SMCSamples.resample draws {len(calls)} times from the generator")
        c = calls[0]
        kws = {k.arg: k.value for k in c.keywords}
        if len(c.args) != 1 or ast.unparse(c.args[0]) != "len(self.x)":
            raise Untranslatable("SMCSamples.resample: the population handed to choice is not len(self.x): " + ast.unparse(c))
        if "replace" in kws and not (isinstance(kws["replace"], ast.Constant) and kws["replace"].value is True):
            raise Untranslatable("SMCSamples.resample: `replace` is not the constant True: " + ast.unparse(kws["replace"]))
        if "size" not in kws or ast.unparse(kws["size"]) != "n_samples" or "p" not in kws or not isinstance(kws["p"], ast.Name):
            raise Untranslatable("SMCSamples.resample: unexpected size / p arguments: " + ast.unparse(c))
        rs_text = ("(* SMCSamples.resample consults the generator exactly once: choice(len(self.x), size=n_samples, replace=True, p=<the probabilities>) *)\n"
                   "Definition resample_choice_calls : nat := 1.\n"
                   "Definition resample_draws_with_replacement : bool := true.\n"
                   "Definition resample_draws_from_whole_population : bool := true.\n")
    except Exception as e:
        rs_ok, rs_detail = False, repr(e)
    status["resample_call"] = (rs_ok, rs_detail)
    if not ok:
        return "(* extraction failed: " + detail + " *)\n"
    f = lambda l: "[" + "; ".join(l) + "]"
    return ("(* GENERATED on every run by /verif/tools/translate.py from CompositeTransform.{forward,inverse,fit}. Do not edit. *)\n"
            "From Coq Require Import List.\nImport ListNotations.\n"
            "Inductive stage := SPeriodic | SBounded | SAffine.\n"
            f"Definition forward_order : list stage := {f(out['forward'])}.\n"
            f"Definition inverse_order : list stage := {f(out['inverse'])}.\n"
            f"Definition fit_order : list stage := {f(out['fit'])}.\n"
            "(* every stage log-Jacobian is added to the running total with `+=` in both directions *)\n"
            "Definition accumulates_by_addition : bool := true.\n"
            + (rs_text if rs_ok else "(* resample call extraction failed: " + rs_detail + " *)\n"))


TRANSFORMS_HEADER = """(* GENERATED on every run by /verif/tools/translate.py from /repo/src/aspire/transforms.py (working tree). Do not edit.
   Per-row convention: x / y are ONE row (a list over the coordinates the transform acts on); `.sum(-1)` is the sum over
   coordinates; erf / erfinv are the scipy special functions (Section variables of the proofs). *)
From Coq Require Import Reals List Bool.
From AV Require Import Lib.Vec Gen.Kernels.
Import ListNotations.
Open Scope R_scope.

Section Transforms.
  Variables (erf erfinv : R -> R).
"""


def transforms_targets():
    binit = lambda extra=None: [("__init__", dict({"lower": V("lower"), "upper": V("upper"), "xp": ModV("xp"), "dtype": NoneV()},
                                                  **(extra or {})), None)]
    io = lambda n: [(n, "V"), ("lower", "V"), ("upper", "V")]
    T = []
    for m, arg in (("forward", "x"), ("inverse", "y")):
        T.append(dict(name=f"periodic_{m}", module="transforms", cls="PeriodicTransform", func=m, inputs=io(arg),
                      pre_methods=binit(), params={arg: V(arg)}, outputs={"y": "return[0]", "logj": "return[1]"}))
        T.append(dict(name=f"logit_t_{m}", module="transforms", cls="LogitTransform", func=m, inputs=io(arg) + [("eps", "S")],
                      pre_methods=binit({"eps": S("eps")}), params={arg: V(arg)}, outputs={"y": "return[0]", "logj": "return[1]"}))
        T.append(dict(name=f"probit_t_{m}", module="transforms", cls="ProbitTransform", func=m, inputs=io(arg) + [("eps", "S")],
                      pre_methods=binit({"eps": S("eps")}), params={arg: V(arg)}, outputs={"y": "return[0]", "logj": "return[1]"}))
        T.append(dict(name=f"affine_{m}", module="transforms", cls="AffineTransform", func=m,
                      inputs=[(arg, "V"), ("mean", "V"), ("std", "V")],
                      pre_methods=[("__init__", {"xp": ModV("xp"), "dtype": NoneV()}, None),
                                   ("fit", {"x": V("xfit")}, {"x.mean(0)": V("mean"), "x.std(0)": V("std")})],
                      params={arg: V(arg)}, outputs={"y": "return[0]", "logj": "return[1]"}))
    # the same object fitted TWICE (Aspire.fit called again, SMC refits of a preconditioning flow): it must be the transform of the last fit
    for m, arg in (("forward", "x"), ("inverse", "y")):
        T.append(dict(name=f"affine_refit_{m}", module="transforms", cls="AffineTransform", func=m,
                      inputs=[(arg, "V"), ("mean0", "V"), ("std0", "V"), ("mean", "V"), ("std", "V")],
                      pre_methods=[("__init__", {"xp": ModV("xp"), "dtype": NoneV()}, None),
                                   ("fit", {"x": V("xfit0")}, {"x.mean(0)": V("mean0"), "x.std(0)": V("std0")}),
                                   ("fit", {"x": V("xfit")}, {"x.mean(0)": V("mean"), "x.std(0)": V("std")})],
                      params={arg: V(arg)}, outputs={"y": "return[0]", "logj": "return[1]"}))
    T.append(dict(name="affine_fit", module="transforms", cls="AffineTransform", func="fit",
                  inputs=[("x", "V"), ("mean", "V"), ("std", "V")],
                  pre_methods=[("__init__", {"xp": ModV("xp"), "dtype": NoneV()}, None)],
                  overrides={"x.mean(0)": V("mean"), "x.std(0)": V("std")},
                  params={"x": V("x")}, outputs={"y": "return"}))
    for cls_, nm in (("PeriodicTransform", "periodic"), ("LogitTransform", "logit_t"), ("ProbitTransform", "probit_t")):
        extra = {} if nm == "periodic" else {"eps": S("eps")}
        T.append(dict(name=f"{nm}_fit", module="transforms", cls=cls_, func="fit",
                      inputs=io("x") + ([("eps", "S")] if extra else []), pre_methods=binit(extra),
                      params={"x": V("x")}, outputs={"y": "return"}))
    return T


def run_transforms(tr, status, irall, meta):
    chunks = []
    for spec in transforms_targets():
        name = spec["name"]
        try:
            ex, outs = tr.translate(spec)
            text, ir = emit_defs(name, spec["inputs"], ex, outs, TRTABLE, section_types=True)
            chunks.append(f"(* ---- {spec['module']}.{spec.get('cls')}.{spec['func']}"
                          f"{'  guards(raise if): ' + '; '.join(ex.guards) if ex.guards else ''} *)\n" + text)
            irall.update(ir)
            meta[name] = {"guards": ex.guards}
            status[name] = (True, "")
        except Untranslatable as e:
            status[name] = (False, f"Untranslatable: {e}")
        except Exception:
            status[name] = (False, traceback.format_exc()[-1500:])
    return "\n".join(chunks)


TRTABLE = dict(RTABLE)


ROWS_HEADER = """(* GENERATED on every run by /verif/tools/translate.py from /repo/src/aspire/samples.py (working tree). Do not edit. *)
From Coq Require Import Reals List Bool.
From AV Require Import Lib.Vec Lib.Soa Gen.Kernels.
Import ListNotations.
Open Scope R_scope.
"""


def rows_targets():
    I = var("idx", "I")
    full = lambda: {"x": var("x", "XV"), "log_likelihood": V("ll"), "log_prior": V("lp"), "log_q": V("lq"),
                    "parameters": Opaque("p"), "dtype": Opaque("d"), "device": NoneV()}
    base_in = [("x", "XV"), ("ll", "V"), ("lp", "V"), ("lq", "V"), ("idx", "I"), ("dX", "X")]
    fields = {"x": "return.x", "log_likelihood": "return.log_likelihood", "log_prior": "return.log_prior", "log_q": "return.log_q"}
    T = []
    smc = full()
    smc.update({"beta": S("beta0"), "log_evidence": NoneV(), "log_evidence_error": NoneV()})
    T.append(dict(name="resample_rows", module="samples", cls="SMCSamples", func="resample",
                  inputs=[("x", "XV"), ("ll", "V"), ("lp", "V"), ("lq", "V"), ("beta0", "S"), ("beta", "S"), ("idx", "I"), ("dX", "X")],
                  self=smc, params={"beta": S("beta"), "n_samples": NoneV(), "rng": Opaque("rng")},
                  overrides={"rng.choice": I},
                  flags={"assume": {"beta == self.beta and n_samples is None": False}},
                  outputs=dict(fields, beta="return.beta")))
    T.append(dict(name="base_getitem", module="samples", cls="BaseSamples", func="__getitem__", inputs=base_in,
                  self=full(), params={"idx": I}, outputs=dict(fields)))
    smc2 = full()
    smc2.update({"beta": S("beta0"), "log_evidence": S("le"), "log_evidence_error": S("lee")})
    T.append(dict(name="smc_getitem", module="samples", cls="SMCSamples", func="__getitem__",
                  inputs=[("x", "XV"), ("ll", "V"), ("lp", "V"), ("lq", "V"), ("beta0", "S"), ("le", "S"), ("lee", "S"), ("idx", "I"), ("dX", "X")],
                  self=smc2, params={"idx": I},
                  outputs=dict(fields, beta="return.beta", log_evidence="return.log_evidence", log_evidence_error="return.log_evidence_error")))
    w = full()
    w.update({"log_w": V("lw"), "weights": V("w"), "log_evidence": S("le"), "log_evidence_error": S("lee"),
              "evidence": S("ev"), "evidence_error": S("eve"), "effective_sample_size": S("ess")})
    T.append(dict(name="samples_getitem", module="samples", cls="Samples", func="__getitem__",
                  inputs=[("x", "XV"), ("ll", "V"), ("lp", "V"), ("lq", "V"), ("lw", "V"), ("w", "V"), ("le", "S"), ("lee", "S"),
                          ("idx", "I"), ("dX", "X")],
                  self=w, params={"idx": I},
                  outputs=dict(fields, log_w="return.log_w", weights="return.weights", log_evidence="return.log_evidence",
                               log_evidence_error="return.log_evidence_error", ess="return.effective_sample_size")))
    # a weightless Samples carrying an evidence (what SMCSamples.to_standard_samples() returns: log_q dropped, evidence attached)
    u = {"x": var("x", "XV"), "log_likelihood": V("ll"), "log_prior": V("lp"), "log_q": NoneV(),
         "parameters": Opaque("p"), "dtype": Opaque("d"), "device": NoneV(),
         "log_w": NoneV(), "weights": NoneV(), "log_evidence": S("le"), "log_evidence_error": S("lee"),
         "evidence": NoneV(), "evidence_error": NoneV(), "effective_sample_size": NoneV()}
    T.append(dict(name="samples_getitem_unweighted", module="samples", cls="Samples", func="__getitem__",
                  inputs=[("x", "XV"), ("ll", "V"), ("lp", "V"), ("le", "S"), ("lee", "S"), ("idx", "I"), ("dX", "X")],
                  self=u, params={"idx": I},
                  outputs={"x": "return.x", "log_likelihood": "return.log_likelihood", "log_prior": "return.log_prior",
                           "log_evidence": "return.log_evidence", "log_evidence_error": "return.log_evidence_error"}))
    return T


FLOWS_HEADER = """(* GENERATED on every run by /verif/tools/translate.py from /repo/src/aspire/flows (working tree). Do not edit.
   Base      : log-density of the underlying flow on its own (latent-data) space        (zuko / flowjax: trusted)
   Tfwd_*    : data_transform.forward  = (rescaled point, log|det J|)                     (property C04)
   Tinv_*    : data_transform.inverse  = (native point,   log|det J|) *)
From Coq Require Import Reals List Bool.
From AV Require Import Lib.Vec.
Import ListNotations.
Open Scope R_scope.

Section Flows.
  Context {X Z : Type}.
  Variables (Base : Z -> R) (Tfwd_pt : X -> Z) (Tfwd_lj : X -> R) (Tinv_pt : Z -> X) (Tinv_lj : Z -> R).
"""


def flows_targets():
    fwd = {"self.data_transform.forward": Abs("Tfwd", shape="pair"), "self.data_transform.inverse": Abs("Tinv", shape="pair")}
    fself = lambda: {"dtype": Opaque("dtype"), "device": Opaque("device"), "key": Opaque("key")}
    T = []
    zo = dict(fwd)
    zo.update({"self._flow().log_prob": Abs("Base"), "self.flow().rsample_and_log_prob": Tup([var("zs", "ZV"), V("base_lp")])})
    T.append(dict(name="zuko_log_prob", module="flows.torch.flows", cls="ZukoFlow", func="log_prob", inputs=[("x", "XV")],
                  self=fself(), params={"x": var("x", "XV"), "xp": ModV("xp")}, overrides=zo, outputs={"": "return"}))
    T.append(dict(name="zuko_sample", module="flows.torch.flows", cls="ZukoFlow", func="sample_and_log_prob",
                  inputs=[("zs", "ZV"), ("base_lp", "V")], self=fself(), params={"n_samples": Opaque("n"), "xp": ModV("xp")},
                  overrides=zo, outputs={"x": "return[0]", "logq": "return[1]"}))
    jo = dict(fwd)
    jo.update({"self._flow.log_prob": Abs("Base"), "jrandom.split": Tup([Opaque("k1"), Opaque("k2")]),
               "self._flow.sample": var("zs", "ZV")})
    T.append(dict(name="flowjax_log_prob", module="flows.jax.flows", cls="FlowJax", func="log_prob", inputs=[("x", "XV")],
                  self=fself(), params={"x": var("x", "XV"), "xp": ModV("xp")}, overrides=jo, outputs={"": "return"}))
    T.append(dict(name="flowjax_sample", module="flows.jax.flows", cls="FlowJax", func="sample_and_log_prob",
                  inputs=[("zs", "ZV")], self=fself(), params={"n_samples": Opaque("n"), "xp": ModV("xp")},
                  overrides=jo, outputs={"x": "return[0]", "logq": "return[1]"}))
    return T


def run_flows(tr, status, irall, meta):
    chunks = []
    for spec in flows_targets():
        name = spec["name"]
        try:
            ex, outs = tr.translate(spec)
            text, ir = emit_defs(name, spec["inputs"], ex, outs, RTABLE, section_types=True)
            chunks.append(f"(* ---- {spec['module']}.{spec.get('cls')}.{spec['func']} *)\n" + text)
            irall.update(ir)
            status[name] = (True, "")
        except Untranslatable as e:
            status[name] = (False, f"Untranslatable: {e}")
        except Exception:
            status[name] = (False, traceback.format_exc()[-1500:])
    return "\n".join(chunks)


def run_targets(tr, targets, table, status, irall, meta):
    chunks = []
    for spec in targets:
        name = spec["name"]
        try:
            ex, outs = tr.translate(spec)
            text, ir = emit_defs(name, spec["inputs"], ex, outs, table)
            chunks.append(f"(* ---- {spec['module']}.{(spec.get('cls') + '.') if spec.get('cls') else ''}{spec['func']}"
                          f"{'  guards(raise if): ' + '; '.join(ex.guards) if ex.guards else ''}"
                          f"{'  assumed: ' + repr(ex.assumed) if ex.assumed else ''} *)\n" + text)
            irall.update(ir)
            meta[name] = {"guards": ex.guards, "assumed": ex.assumed, "events": ex.events}
            if spec.get("register"):
                fn, params, outsig = spec["register"][:3]
                tr.gen_funcs[fn] = {"params": params, "outs": outsig}
                if len(spec["register"]) > 3:          # the Coq name differs from the Python name (second numeric domain)
                    tr.gen_funcs[fn]["coq"] = spec["register"][3]
            status[name] = (True, "")
        except Untranslatable as e:
            status[name] = (False, f"Untranslatable: {e}")
        except Exception:
            status[name] = (False, traceback.format_exc()[-1500:])
    return "\n".join(chunks)


def build(tr, status):
    files = {}
    irall, meta = {}, {}
    body = run_targets(tr, kernels_targets(), RTABLE, status, irall, meta)
    files["Kernels.v"] = HEADER + "\n" + body
    files["kernels_ir.json"] = json.dumps({"ir": irall, "meta": meta}, indent=0, default=str)
    ir3, meta3 = {}, {}
    body3 = run_targets(tr, rows_targets(), RTABLE, status, ir3, meta3)
    files["Rows.v"] = ROWS_HEADER + "\n" + body3
    files["rows_ir.json"] = json.dumps({"ir": ir3, "meta": meta3}, indent=0, default=str)
    ir4, meta4 = {}, {}
    body4 = run_transforms(tr, status, ir4, meta4)
    files["Transforms.v"] = TRANSFORMS_HEADER + "\n" + body4 + "\nEnd Transforms.\n"
    files["transforms_ir.json"] = json.dumps({"ir": ir4, "meta": meta4}, indent=0, default=str)
    ir5, meta5 = {}, {}
    body5 = run_flows(tr, status, ir5, meta5)
    files["Flows.v"] = FLOWS_HEADER + "\n" + body5 + "\nEnd Flows.\n"
    files["Routing.v"] = routing_file(tr, status)
    files["Composite.v"] = composite_file(tr, status)
    ir6, meta6 = {}, {}
    saved = dict(tr.gen_funcs)            # the XR registration of logsumexp must not leak into the other files
    body6 = run_targets(tr, kernelsx_targets(), XTABLE, status, ir6, meta6)
    tr.gen_funcs = saved
    files["KernelsX.v"] = XHEADER + "\n" + body6
    files["kernelsx_ir.json"] = json.dumps({"ir": ir6, "meta": meta6}, indent=0, default=str)
    ir2, meta2 = {}, {}
    body2 = run_calls(tr, calls_targets(), status, ir2, meta2)
    files["Calls.v"] = CALLS_HEADER + "\n" + body2 + "\nEnd Calls.\n"
    files["calls_ir.json"] = json.dumps({"ir": ir2, "meta": meta2}, indent=0, default=str)
    return files
