#!/usr/bin/env python3
"""Compare a pytest junit xml with /root/.vp/BASELINE.json's stable_pass list."""
import json, sys, xml.etree.ElementTree as ET
base = set(json.load(open('/root/.vp/BASELINE.json'))['stable_pass'])
passed = set()
for tc in ET.parse(sys.argv[1]).getroot().iter('testcase'):
    if not any(ch.tag in ('failure', 'error', 'skipped') for ch in tc):
        passed.add(f"{tc.get('classname')}::{tc.get('name')}")
print("baseline", len(base), "passed now", len(passed), "missing", len(base - passed), "extra", len(passed - base))
for m in sorted(base - passed)[:20]:
    print("  MISSING", m)
