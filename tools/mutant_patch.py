#!/usr/bin/env python3
"""tools/mutant_patch.py <mutants.json> <id> <out.diff>: write the one-line edit of a generated mutant as a git patch against /repo HEAD."""
import json, subprocess, sys, tempfile, shutil, os
ms = {m["id"]: m for m in json.load(open(sys.argv[1]))}
m = ms[int(sys.argv[2])]
d = tempfile.mkdtemp(prefix="mp-")
try:
    rel = "src/aspire/" + m["file"]
    os.makedirs(os.path.join(d, "a", os.path.dirname(rel)), exist_ok=True)
    os.makedirs(os.path.join(d, "b", os.path.dirname(rel)), exist_ok=True)
    src = subprocess.run(["git", "-C", "/repo", "show", "HEAD:" + rel], capture_output=True, text=True, check=True).stdout
    lines = src.split("\n")
    ln = lines[m["line"] - 1]
    assert ln[m["c0"]:m["c1"]] == m["old"], "stale mutant"
    lines[m["line"] - 1] = ln[:m["c0"]] + m["new"] + ln[m["c1"]:]
    open(os.path.join(d, "a", rel), "w").write(src)
    open(os.path.join(d, "b", rel), "w").write("\n".join(lines))
    p = subprocess.run(["diff", "-u", "a/" + rel, "b/" + rel], cwd=d, capture_output=True, text=True)
    open(sys.argv[3], "w").write(p.stdout)
    print(m["file"], m["func"], m["line"], repr(m["old"]), "->", repr(m["new"]))
finally:
    shutil.rmtree(d)
